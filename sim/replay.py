"""Replay: re-execute a (minimised) scenario file in a fresh interpreter.

exit 1 + VIOLATION line: the violation reproduced (same class, same event digest);
exit 0: the scenario ran clean; exit 2: it failed differently (HARNESS-ERROR)."""
from __future__ import annotations

import json
import os
import sys

from .core import cleanup_scratch, enter_private_cwd, run_scenario
from .worker import load_prop


def main(argv) -> int:
    prop, path = argv[0], os.path.abspath(argv[1])
    enter_private_cwd()
    with open(path) as fp:
        sc = json.load(fp)
    expect = sc.pop("expect", {})
    layer = (expect.get("info") or {}).get("layer")
    if layer in ("omp", "workqueue"):  # C19 mode=compiled: same threading layer as the recorded run
        os.environ["NUMBA_THREADING_LAYER"] = layer
    mod = load_prop(prop)
    if sc.get("warmup_only"):
        # the library's most basic calls kill the interpreter: the recorded failure is this process dying
        mod.warm()
        print(f"REPLAY-CLEAN property={prop} (expected {expect.get('class')})")
        return 0
    if hasattr(mod, "warm"):
        try:
            mod.warm()
        except Exception:  # noqa: BLE001,S110 - judged inside the run
            pass
    if sc.get("history"):
        # a failure that needs what the process executed before (memory corrupted by earlier calls): re-execute
        # the worker's scenarios in order; the recorded failure is this process dying
        from .worker import make_scenario

        h = sc["history"]
        idx = [int(x) for x in h["only"]] if h.get("only") else list(range(int(h["stripe"]), int(h["upto"]) + 1, int(h["nstripes"])))
        out = None
        scs = sc.get("scenarios") or [make_scenario(mod, prop, int(h["seed"]), i, h["tier"]) for i in idx]
        if h.get("only") and "scenarios" not in sc:
            # a reduced history carries its scenarios (the file then no longer depends on the generators)
            with open(path, "w") as fp:
                json.dump({**sc, "expect": expect, "scenarios": scs}, fp, indent=1, sort_keys=True)
        for one in scs:
            out = run_scenario(mod, json.loads(json.dumps(one)))
        cleanup_scratch()
        print(f"VERIF_SEED={h['seed']} history={idx[:3]}..{idx[-1]} ({len(idx)} scenarios) replay={path}")
        if out is not None and out.violation is not None and expect.get("class") in (None, out.violation):
            print(f"VIOLATION property={prop} replay={path}")
            print(f"  class={out.violation}\n  detail={out.detail}\n  (last scenario of the history, run {idx[-1]})")
            return 1
        print(f"REPLAY-CLEAN property={prop} (expected {expect.get('class')})")
        return 0
    out = run_scenario(mod, sc)
    cleanup_scratch()
    print(f"VERIF_SEED={sc.get('seed')} run={sc.get('run')} replay={path}")
    if out.error:
        print(f"HARNESS-ERROR replay raised inside the harness: {out.error}")
        return 2
    if out.violation is None:
        print(f"REPLAY-CLEAN property={prop} (expected {expect.get('class')})")
        return 0
    same_cls = expect.get("class") in (None, out.violation)
    same_dig = expect.get("event_digest") in (None, "sha256:" + out.digest)
    print(f"VIOLATION property={prop} replay={path}")
    print(f"  class={out.violation}\n  detail={out.detail}\n  digest=sha256:{out.digest}"
          f" same_class={same_cls} same_digest={same_dig}")
    if not (same_cls and same_dig):
        print("HARNESS-ERROR replay failed differently from the recorded run")
        return 2
    return 1


if __name__ == "__main__":
    sys.exit(main(sys.argv[1:]))
