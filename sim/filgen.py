"""Harness-owned SIGPROC file generator and sample model (independent of the library's
writer/encoder, so the oracle does not trust the code under test).

File spec (part of a scenario, JSON):
  {"nbits": 4, "nchans": 6, "nsamps": [5,1,9], "pad": [0,3,1], "vseed": 77, "mode": "bits",
   "fch1": 1500.0, "foff": -1.0, "tsamp": 0.001}
Sample value at (t, c) is a pure function of (vseed, t, c, nbits, mode): prefix-stable in t, so
a scenario keeps its meaning when the shrinker lowers nsamps.
"""
from __future__ import annotations

import os
import random
import struct

import numpy as np

DTYPES = {1: "<u1", 2: "<u1", 4: "<u1", 8: "<u1", 16: "<u2", 32: "<f4"}

# special float32 bit patterns used by mode "bits" at 32 bit (compared as uint32)
_SPECIAL_F32 = np.array(
    [0x00000000, 0x80000000, 0x00000001, 0x807FFFFF, 0x7F800000, 0xFF800000, 0x7FC00001,
     0x3F800000, 0xBF800000, 0x7F7FFFFF, 0x00800000, 0x4B000001],
    dtype=np.uint32,
)


def _mix(vseed: int, t: np.ndarray, c: np.ndarray) -> np.ndarray:
    """64-bit integer hash of (vseed, t, c) (splitmix-like), vectorised."""
    with np.errstate(over="ignore"):
        x = (t.astype(np.uint64) * np.uint64(0x9E3779B97F4A7C15)) ^ (
            c.astype(np.uint64) * np.uint64(0xC2B2AE3D27D4EB4F)
        )
        x = x + np.uint64((vseed * 0x165667B19E3779F9) & 0xFFFFFFFFFFFFFFFF)
        x ^= x >> np.uint64(30)
        x *= np.uint64(0xBF58476D1CE4E5B9)
        x ^= x >> np.uint64(27)
        x *= np.uint64(0x94D049BB133111EB)
        x ^= x >> np.uint64(31)
    return x


def make_samples(vseed: int, nsamps: int, nchans: int, nbits: int, mode: str = "bits", t0: int = 0) -> np.ndarray:
    """(nsamps, nchans) array in the file dtype of `nbits`.

    modes: "bits"  - full range of the depth (32 bit: special float patterns + integers)
           "small" - integer values in [0, min(15, 2^nbits-1)] (float32 sums exact)
           "ramp"  - all-distinct values where the depth allows (t*nchans+c mod range)
    """
    t = np.arange(t0, t0 + nsamps, dtype=np.int64)[:, None] * np.ones((1, nchans), dtype=np.int64)
    c = np.ones((nsamps, 1), dtype=np.int64) * np.arange(nchans, dtype=np.int64)[None, :]
    h = _mix(vseed, t, c)
    dt = np.dtype(DTYPES[nbits])
    if mode == "small":
        top = min(15, (1 << nbits) - 1) if nbits < 32 else 15
        return (h % np.uint64(top + 1)).astype(dt)
    if mode == "gappy":
        # small integers with stretches of exact zeros in all channels (blank blocks)
        top = min(15, (1 << nbits) - 1) if nbits < 32 else 15
        vals = (h % np.uint64(top + 1)).astype(np.int64)
        period = 5 + vseed % 11
        blank = ((t // period) % 2 == 1)
        return np.where(blank, 0, np.maximum(vals, 1 if top >= 1 else 0)).astype(dt)
    if mode == "high":
        # values at the top of the sample type (top-5 .. top): sums of many of them are where a narrow accumulator wraps
        top = (1 << nbits) - 1 if nbits < 32 else 255
        return (np.int64(top) - (h % np.uint64(6)).astype(np.int64)).astype(dt)
    if mode == "blank128":
        # small positive integers with every second stretch of 128 samples exactly zero in all channels: whole blocks of
        # several kB that are nothing but zero bytes (blanked data, zero padding at the end of a scan)
        top = min(15, (1 << nbits) - 1) if nbits < 32 else 15
        vals = np.maximum((h % np.uint64(top + 1)).astype(np.int64), 1 if top >= 1 else 0)
        return np.where((t // 128) % 2 == 1, 0, vals).astype(dt)
    if mode == "flat":
        # every sample equals one small constant: block means are exact integers
        return np.full((nsamps, nchans), 1 + (vseed % 15)).astype(dt) if nbits > 2 else np.full((nsamps, nchans), 1).astype(dt)
    if mode.startswith("pulse"):
        # strictly periodic train: value 1 in every channel at samples t % k == 0 (k = vseed), else 0
        k = max(1, int(vseed))
        return np.where(t % k == 0, 1, 0).astype(dt)
    if mode == "ramp":
        if nbits == 32:
            return (t * nchans + c).astype(dt)
        return ((t * nchans + c + vseed) % (1 << nbits)).astype(dt)
    # bits
    if nbits == 32:
        pick = (h >> np.uint64(40)) % np.uint64(4)
        ints = (h % np.uint64(1 << 20)).astype(np.float32).view(np.uint32)
        spec = _SPECIAL_F32[(h % np.uint64(len(_SPECIAL_F32))).astype(np.int64)]
        bits = np.where(pick == 0, spec, ints).astype(np.uint32)
        return bits.view(np.float32)
    return (h % np.uint64(1 << nbits)).astype(dt)


def pack_bits(flat_u8: np.ndarray, nbits: int) -> np.ndarray:
    """SIGPROC packing as the library's defaults read it: 1 bit LSB-first, 2/4 bit MSB-first."""
    per = 8 // nbits
    a = flat_u8.reshape(-1, per).astype(np.uint16)
    out = np.zeros(a.shape[0], dtype=np.uint16)
    for k in range(per):
        shift = k * nbits if nbits == 1 else (per - 1 - k) * nbits
        out |= a[:, k] << shift
    return out.astype(np.uint8)


def to_disk_bytes(samples: np.ndarray, nbits: int) -> bytes:
    flat = np.ascontiguousarray(samples).ravel()
    if nbits in (1, 2, 4):
        return pack_bits(flat.astype(np.uint8), nbits).tobytes()
    return flat.astype(DTYPES[nbits]).tobytes()


def _key(name: str) -> bytes:
    return struct.pack("<I", len(name)) + name.encode()


def encode_header(fields: dict) -> bytes:
    """Minimal independent SIGPROC header encoder."""
    types = {
        "telescope_id": "i", "machine_id": "i", "data_type": "i", "nchans": "i", "nbits": "i",
        "nifs": "i", "ibeam": "i", "nbeams": "i", "barycentric": "i", "pulsarcentric": "i", "signed": "b",
        "fch1": "d", "foff": "d", "tsamp": "d", "tstart": "d", "refdm": "d", "src_raj": "d",
        "src_dej": "d", "az_start": "d", "za_start": "d",
        "source_name": "s", "rawdatafile": "s",
    }
    out = _key("HEADER_START")
    for k, v in fields.items():
        ty = types[k]
        if ty == "s":
            out += _key(k) + _key(v)
        else:
            out += _key(k) + struct.pack("<" + ty, v)
    out += _key("HEADER_END")
    return out


def header_fields(spec: dict, ifile: int, tstart: float) -> dict:
    pad = (spec.get("pad") or [0] * len(spec["nsamps"]))[ifile]
    return _header_variant(spec, ifile, {
        "telescope_id": 4,
        "machine_id": 10,
        "data_type": spec.get("data_type", 1),
        "rawdatafile": "r" + "x" * int(pad),
        "source_name": spec.get("source_name", "SIM"),
        "barycentric": 0,
        "pulsarcentric": 0,
        "az_start": 0.0,
        "za_start": 0.0,
        "src_raj": 0.0,
        "src_dej": 0.0,
        "tstart": tstart,
        "tsamp": float(spec.get("tsamp", 0.001)),
        "nbits": int(spec["nbits"]),
        "fch1": float(spec.get("fch1", 1500.0)),
        "foff": float(spec.get("foff", -1.0)),
        "nchans": int(spec["nchans"]),
        "nifs": 1,
        "refdm": float(spec.get("refdm", 0.0)),
    })


def _header_variant(spec: dict, ifile: int, fields: dict) -> dict:
    """Other writers' headers: the format fixes neither the order of the keys nor which optional keys are
    present.  A third of the file sets (decided by the scenario's `hv`, default its `vseed`) carry optional
    keys (ibeam, nbeams, signed=0) and/or list their keys in another order - a different one in each file
    of a set."""
    hv = int(spec.get("hv", spec.get("vseed", 0)))
    if hv % 3 != 2:
        return fields
    r = random.Random(f"hv/{hv}")
    if r.random() < 0.5:
        fields["ibeam"] = r.choice([0, 1, 7])
        fields["nbeams"] = r.choice([1, 13])
    if r.random() < 0.3:
        fields["signed"] = 0
    if r.random() < 0.7:
        keys = list(fields)
        random.Random(f"hv/{hv}/{ifile}").shuffle(keys)
        fields = {k: fields[k] for k in keys}
    return fields


def gen_pads(rng, n, small=9):
    """Lengths of the free-text header strings of n files: mostly short, sometimes the long archive paths
    other packages write (longer than the 80 characters some C tools stop at)."""
    r = rng.random()
    if r < 0.12:
        return [rng.choice([79, 80, 81, 95, 200, 300]) for _ in range(n)]
    if r < 0.24:
        # any header length from ~340 to ~1050 bytes: where HEADER_END straddles a 512- or 1024-byte boundary, where the
        # header ends exactly on one, ... (9 lengths out of every 512 are special to a chunked parser)
        return [rng.randint(0, 700) for _ in range(n)]
    return [rng.randint(0, small) for _ in range(n)]


class FileSet:
    """What was put on the simulated disk, plus the model."""

    def __init__(self) -> None:
        self.paths: list[str] = []
        self.hdrlens: list[int] = []
        self.datalens: list[int] = []  # bytes
        self.samples = None  # (N, nchans) in file dtype
        self.databytes = b""  # the data sections joined end to end
        self.hdrbytes: list[bytes] = []
        self.spec = None

    @property
    def nsamples(self) -> int:
        return int(self.samples.shape[0])


def write_fileset(root: str, spec: dict, stem: str = "in", extra_tail: list | None = None) -> FileSet:
    """Write 1..k contiguous files described by `spec` under `root`."""
    nbits, nchans = int(spec["nbits"]), int(spec["nchans"])
    assert (nchans * nbits) % 8 == 0, "one sample must be a whole number of bytes"
    counts = [int(n) for n in spec["nsamps"]]
    total = sum(counts)
    fs = FileSet()
    fs.spec = spec
    fs.samples = make_samples(int(spec.get("vseed", 0)), total, nchans, nbits, spec.get("mode", "bits"))
    tsamp = float(spec.get("tsamp", 0.001))
    tstart0 = float(spec.get("tstart", 58000.0))
    t = 0
    joined = []
    for i, n in enumerate(counts):
        ts_i = tstart0 + t * tsamp / 86400.0
        if spec.get("tstart_shift"):
            ts_i = tstart0 + float(spec["tstart_shift"][i])  # days; arbitrary, not necessarily increasing
        hdr = encode_header(header_fields(spec, i, ts_i))
        data = to_disk_bytes(fs.samples[t : t + n], nbits)
        tail = b""
        if extra_tail and extra_tail[i]:
            tail = bytes(extra_tail[i])
        # names whose lexicographic order differs from the caller's (chronological) order: _8, _9, _10
        path = os.path.join(root, f"{stem}_{8 + i}.fil")
        with open(path, "wb") as fp:
            fp.write(hdr)
            fp.write(data)
            fp.write(tail)
        fs.paths.append(path)
        fs.hdrlens.append(len(hdr))
        fs.datalens.append(len(data) + len(tail))
        fs.hdrbytes.append(hdr)
        joined.append(data + tail)
        t += n
    fs.databytes = b"".join(joined)
    return fs


def unpack_model(databytes: bytes, nbits: int) -> np.ndarray:
    """Independent unpacker (for byte-level models): flat array in the file dtype."""
    raw = np.frombuffer(databytes, dtype=np.uint8)
    if nbits == 8:
        return raw.copy()
    if nbits == 16:
        return np.frombuffer(databytes[: len(databytes) // 2 * 2], dtype="<u2").copy()
    if nbits == 32:
        return np.frombuffer(databytes[: len(databytes) // 4 * 4], dtype="<f4").copy()
    per = 8 // nbits
    out = np.empty((raw.size, per), dtype=np.uint8)
    mask = (1 << nbits) - 1
    for k in range(per):
        shift = k * nbits if nbits == 1 else (per - 1 - k) * nbits
        out[:, k] = (raw >> shift) & mask
    return out.ravel()


def same_bits(a: np.ndarray, b: np.ndarray) -> bool:
    """Bit-exact comparison (float32 compared as raw bytes: NaN payloads, -0.0 count)."""
    a = np.ascontiguousarray(a)
    b = np.ascontiguousarray(b)
    if a.shape != b.shape or a.dtype != b.dtype:
        return False
    return a.tobytes() == b.tobytes()


_HDR_TYPES = {
    "telescope_id": "i", "machine_id": "i", "data_type": "i", "nchans": "i", "nbits": "i", "nifs": "i",
    "ibeam": "i", "nbeams": "i", "barycentric": "i", "pulsarcentric": "i", "signed": "b",
    "fch1": "d", "foff": "d", "tsamp": "d", "tstart": "d", "refdm": "d", "src_raj": "d", "src_dej": "d",
    "az_start": "d", "za_start": "d", "period": "d", "nsamples": "i",
    "source_name": "s", "rawdatafile": "s",
}


class HeaderError(Exception):
    pass


def parse_header(buf: bytes):
    """Independent SIGPROC header parser: (fields, hdrlen).  Raises HeaderError when `buf` does
    not start with ONE complete header."""
    pos = 0

    def rstr(limit=80):
        nonlocal pos
        if pos + 4 > len(buf):
            raise HeaderError("truncated length")
        (n,) = struct.unpack_from("<I", buf, pos)
        pos += 4
        if n > limit or pos + n > len(buf):
            raise HeaderError(f"bad string length {n}")
        s = buf[pos : pos + n]
        pos += n
        try:
            return s.decode("ascii")
        except UnicodeDecodeError:
            raise HeaderError("non-ascii key") from None

    if rstr() != "HEADER_START":
        raise HeaderError("no HEADER_START")
    fields = {}
    while True:
        k = rstr()
        if k == "HEADER_END":
            break
        ty = _HDR_TYPES.get(k)
        if ty is None:
            raise HeaderError(f"unknown key {k!r}")
        if ty == "s":
            fields[k] = rstr(limit=4096)  # string VALUES (archive paths) are not bounded by the format
        else:
            size = struct.calcsize("<" + ty)
            if pos + size > len(buf):
                raise HeaderError("truncated value")
            (fields[k],) = struct.unpack_from("<" + ty, buf, pos)
            pos += size
    return fields, pos


def read_sigproc(path: str):
    """(fields, hdrlen, data bytes) of a file on the simulated disk, with the harness' parser."""
    with open(path, "rb") as fp:
        buf = fp.read()
    fields, hdrlen = parse_header(buf)
    return fields, hdrlen, buf[hdrlen:]


# ------------------------------------------------------------------ very large (sparse) file sets
def sparse_pattern(off: np.ndarray) -> np.ndarray:
    """Byte stored at stream offset `off` inside a written window (never 0: holes read as 0)."""
    o = np.asarray(off, dtype=np.uint64)
    with np.errstate(over="ignore"):
        v = ((o * np.uint64(2654435761)) >> np.uint64(9)) ^ (o >> np.uint64(31)) ^ (o >> np.uint64(3))
    return ((v & np.uint64(0xFF)) | np.uint64(1)).astype(np.uint8)


class SparseSet:
    """1-3 SIGPROC files whose data sections are gigabytes long but SPARSE: only small windows around the places a
    scenario reads hold data (bytes given by `sparse_pattern` of the stream offset), the rest are holes (zeros).  The
    model is a function of the offset - nothing of that size is ever held in memory or written."""

    def __init__(self, root: str, spec: dict) -> None:
        self.spec = spec
        nbits, nchans = int(spec["nbits"]), int(spec["nchans"])
        assert nbits == 8
        self.stride = nchans
        self.datalens = [int(n) * self.stride for n in spec["nsamps"]]
        self.bounds = [int(b) for b in np.cumsum(self.datalens)]
        self.total = self.bounds[-1]
        self.nsamples = sum(int(n) for n in spec["nsamps"])
        self.windows = sorted((int(a), int(b)) for a, b in spec["windows"])  # [lo, hi) stream offsets, clipped below
        self.windows = [(max(0, a), min(self.total, b)) for a, b in self.windows if a < self.total and b > 0]
        self.paths, self.hdrlens = [], []
        tsamp = float(spec.get("tsamp", 0.001))
        t = 0
        for i, n in enumerate(spec["nsamps"]):
            hdr = encode_header(header_fields(spec, i, float(spec.get("tstart", 58000.0)) + t * tsamp / 86400.0))
            path = os.path.join(root, f"huge_{8 + i}.fil")
            lo_f = self.bounds[i] - self.datalens[i]
            with open(path, "wb") as fp:
                fp.write(hdr)
                fp.truncate(len(hdr) + self.datalens[i])
                for a, b in self.windows:
                    a2, b2 = max(a, lo_f), min(b, self.bounds[i])
                    if a2 < b2:
                        fp.seek(len(hdr) + a2 - lo_f)
                        fp.write(sparse_pattern(np.arange(a2, b2, dtype=np.uint64)).tobytes())
            self.paths.append(path)
            self.hdrlens.append(len(hdr))
            t += int(n)

    def model(self, off: int, n: int) -> bytes:
        """Bytes [off, off+n) of the joined data sections."""
        if n <= 0:
            return b""
        out = np.zeros(n, dtype=np.uint8)
        for a, b in self.windows:
            a2, b2 = max(a, off), min(b, off + n)
            if a2 < b2:
                out[a2 - off : b2 - off] = sparse_pattern(np.arange(a2, b2, dtype=np.uint64))
        return out.tobytes()


class _LazySamples:
    """(nsamples, nchans) view of a SparseSet's model: slices of it are materialised on demand."""

    def __init__(self, ss: SparseSet) -> None:
        self.ss = ss
        self.shape = (ss.nsamples, ss.stride)
        self.dtype = np.dtype(np.uint8)

    def __getitem__(self, k):
        if not isinstance(k, slice):
            raise TypeError("slices of whole samples only")
        a, b, step = k.indices(self.ss.nsamples)
        assert step == 1
        n = max(0, b - a)
        assert n <= 1 << 20, "a lazy model is for small windows of a huge stream"
        return np.frombuffer(self.ss.model(a * self.ss.stride, n * self.ss.stride), dtype=np.uint8).reshape(n, self.ss.stride)


def sparse_fileset(root: str, spec: dict) -> SparseSet:
    """A SparseSet with the attributes of a FileSet that the block-by-block oracles use."""
    ss = SparseSet(root, spec)
    ss.samples = _LazySamples(ss)
    return ss
