"""known_findings.json: committed, never written at run time.

Entry: {"id": "...", "property": "C07", "class": "<violation class>", "where": "<python
expression over the failing call's info dict>", "status": "known"|"fixed", "commit": "...",
"what": "..."}.  Only status == "known" suppresses, and only a violation whose class is equal
and whose `info` satisfies `where`.
"""
from __future__ import annotations

import json
import os

_PATH = os.path.join(os.path.dirname(os.path.dirname(os.path.abspath(__file__))), "known_findings.json")


def load() -> list:
    if not os.path.exists(_PATH):
        return []
    with open(_PATH) as fp:
        return json.load(fp).get("findings", [])


_SAFE = {"abs": abs, "min": min, "max": max, "len": len, "any": any, "all": all, "int": int,
         "float": float, "str": str, "set": set, "sorted": sorted, "sum": sum, "bool": bool,
         "isinstance": isinstance, "list": list, "dict": dict, "tuple": tuple, "range": range}


class _Info(dict):
    def __missing__(self, key):
        return None


def match(findings: list, prop: str, cls: str, info: dict | None):
    """Return the matching *known* finding or None."""
    for f in findings:
        if f.get("status") != "known" or f.get("property") != prop:
            continue
        if f.get("class") != cls:
            continue
        where = f.get("where", "True")
        try:
            ok = bool(eval(where, {"__builtins__": _SAFE}, _Info(info or {})))  # noqa: S307
        except Exception:  # noqa: BLE001 - a predicate that cannot be evaluated never suppresses
            ok = False
        if ok:
            return f
    return None
