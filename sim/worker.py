"""Worker process: executes a stripe of run indices of one property.

usage: python -m sim.worker <PROP> <seed> <tier> <stripe> <nstripes> <count|0> <budget_s|0> <outfile> [det]
Fresh interpreter per worker (never fork: numba's threading layers do not survive it).
"""
from __future__ import annotations

import faulthandler
import importlib
import json
import os
import sys
import time

import numpy as np

from . import findings as F
from .core import cleanup_scratch, enter_private_cwd, jdump, rng_for, run_scenario
from .shrink import minimise


def load_prop(prop: str):
    return importlib.import_module(f"props.{prop.lower()}")


def make_scenario(mod, prop, seed, i, tier) -> dict:
    """Scenario number i of (property, VERIF_SEED): a pure function of its arguments."""
    rng = rng_for(prop, seed, i)
    sc = mod.generate(rng, tier)
    if getattr(mod, "VARY_ARGFORM", False):  # drawn last: the rest of the scenario is what it was before
        from .core import ARGFORMS

        sc["argform"] = rng.choice(ARGFORMS)
    if getattr(mod, "VARY_KNOBS", False):  # drawn after everything else, for the same reason
        sc["knobs"] = rng.choice([None, None, None, 257, 1000, 4099])
    if getattr(mod, "VARY_WRITE_CAP", False):
        # W4: a raw data write transfers at most this many bytes per call (sim.disk.SimFileIO.write)
        sc["write_cap"] = rng.choice([None, None, None, 1, 3, 7, 64, 1000])
    sc.update({"property": prop, "seed": seed, "run": i, "format": 1})
    return sc


def main(argv) -> int:
    prop, seed, tier = argv[0], int(argv[1]), argv[2]
    stripe, nstripes, count, budget = int(argv[3]), int(argv[4]), int(argv[5]), float(argv[6])
    outfile = os.path.abspath(argv[7])
    enter_private_cwd()
    det_only = len(argv) > 8 and argv[8] == "det"
    faulthandler.enable()
    hard = float(os.environ.get("VERIF_WORKER_HARD_TIMEOUT", "0")) or (budget * 2 + 600 if budget else 1500)
    faulthandler.dump_traceback_later(hard, exit=True)
    mod = load_prop(prop)
    warm_failed = None
    if hasattr(mod, "warm"):
        try:
            mod.warm()
        except Exception as e:  # noqa: BLE001 - the library refusing the warm-up calls is judged inside the runs, not here
            warm_failed = f"{type(e).__name__}: {e}"
    known = F.load()
    t0 = time.time()  # wall clock used ONLY for the budget / evidence, never inside a run
    res = {
        "prop": prop, "seed": seed, "tier": tier, "stripe": stripe, "runs": 0, "nontrivial": 0,
        "violations": [], "known": {}, "errors": [], "probes": {}, "faults": {}, "observations": {},
        "io_steps": 0, "sched_steps": 0, "samples": [], "first_digests": {}, "indices": [0, 0],
    }
    if warm_failed:
        res["observations"]["warm-up-raised:" + warm_failed[:120]] = 1
    digs, sigs, ntdigs = [], [], []
    minimised_classes = {}
    wall_hits = 0
    det_n = int(os.environ.get("VERIF_DET_N", "48"))
    i = stripe
    first = i
    curfile = (outfile[:-5] if outfile.endswith(".json") else outfile) + ".cur"
    while True:
        if count and i >= count:
            break
        if budget and (time.time() - t0) > budget:
            break
        if det_only and i >= det_n:
            break
        sc = make_scenario(mod, prop, seed, i, tier)
        with open(curfile, "w") as cf:  # if the process dies inside the library, the driver knows where
            cf.write(jdump({**sc, "_worker": {"stripe": stripe, "nstripes": nstripes, "tier": tier}}))
        out = run_scenario(mod, sc)
        res["runs"] += 1
        d64 = int(out.digest[:16], 16)
        digs.append(d64)
        sigs.append(int(out.signature, 16))
        if i < det_n and getattr(mod, "deterministic", lambda _sc: True)(sc):
            res["first_digests"][str(i)] = out.digest
        if out.nontrivial:
            res["nontrivial"] += 1
            ntdigs.append(d64)
        for k, v in out.probes.items():
            res["probes"][k] = res["probes"].get(k, 0) + v
        for k, v in out.faults.items():
            res["faults"][k] = res["faults"].get(k, 0) + v
        for k, v in out.observations.items():
            res["observations"][k] = res["observations"].get(k, 0) + v
        res["io_steps"] += out.io_steps
        res["sched_steps"] += out.sched_steps
        if len(res["samples"]) < 3 and out.nontrivial and not out.violation:
            res["samples"].append(json.loads(jdump(sc)))
        if out.error:
            if len(res["errors"]) < 5:
                res["errors"].append({"run": i, "error": out.error, "scenario": json.loads(jdump(sc))})
        elif out.violation and not det_only:
            kf = F.match(known, prop, out.violation, out.info)
            if kf is not None:
                ent = res["known"].setdefault(kf["id"], {"count": 0, "example_run": i, "what": kf.get("what", "")})
                ent["count"] += 1
            else:
                n_min = minimised_classes.get(out.violation, 0)
                rec = {"run": i, "class": out.violation, "detail": out.detail, "info": out.info, "seed": seed,
                       "worker": {"stripe": stripe, "nstripes": nstripes, "tier": tier}}
                sc_orig, dig_orig = json.loads(jdump(sc)), out.digest
                if (out.info or {}).get("wall"):
                    # interrupted by the wall-clock bound: not minimised (every attempt would wait for the bound
                    # again), no event digest (where the interrupt lands is not reproducible); the worker stops after two
                    wall_hits += 1
                    rec.update({"scenario": sc_orig, "digest": out.digest, "shrink_execs": 0, "no_digest": True})
                elif n_min < getattr(mod, "SHRINK_PER_CLASS", 4) and sum(minimised_classes.values()) < getattr(mod, "SHRINK_TOTAL", 24):
                    minimised_classes[out.violation] = n_min + 1

                    def still_unknown(o, _cls=out.violation):
                        return F.match(known, prop, _cls, o.info) is None

                    if hasattr(mod, "concretise"):
                        sc2 = mod.concretise(json.loads(jdump(sc)), out)
                        if sc2 is not None:
                            o_c = run_scenario(mod, sc2)
                            if (o_c.violation == out.violation and not o_c.error) or sc2.get("attempts"):
                                sc = sc2
                    best, execs = minimise(mod, sc, out.violation, accept=still_unknown,
                                           max_execs=int(os.environ.get("VERIF_SHRINK_EXECS", str(getattr(mod, "SHRINK_EXECS", 250)))))
                    o2 = run_scenario(mod, best)
                    if o2.violation == out.violation and not o2.error:
                        rec.update({"scenario": json.loads(jdump(best)), "digest": o2.digest,
                                    "detail": o2.detail, "info": o2.info, "shrink_execs": execs,
                                    # kept in case the minimised form only failed because of state left in this process
                                    "scenario_orig": sc_orig, "digest_orig": dig_orig})
                    else:  # pure function: cannot happen, except for C19 mode=compiled (real scheduler)
                        rec.update({"scenario": json.loads(jdump(sc)), "digest": out.digest, "shrink_execs": -1})
                if len(res["violations"]) < 40:
                    res["violations"].append(rec)
                res["violation_count"] = res.get("violation_count", 0) + 1
                if wall_hits >= 2:
                    res["observations"]["stopped-after-two-wall-clock-livelocks"] = 1
                    i += nstripes
                    break
        i += nstripes
    res["indices"] = [first, i]
    res["wall_s"] = time.time() - t0
    base = outfile[:-5] if outfile.endswith(".json") else outfile
    np.save(base + ".dig.npy", np.array(digs, dtype=np.uint64))
    np.save(base + ".sig.npy", np.array(sigs, dtype=np.uint64))
    np.save(base + ".nt.npy", np.array(ntdigs, dtype=np.uint64))
    with open(outfile, "w") as fp:
        fp.write(jdump(res))
    cleanup_scratch()
    faulthandler.cancel_dump_traceback_later()
    return 0


if __name__ == "__main__":
    sys.exit(main(sys.argv[1:]))
