"""Virtual threads for numba `prange` loops (C19).

The kernel's own Python source (`dispatcher.py_func`) is rewritten with `ast` so that every
`for x in prange(n): BODY` becomes an outlined function `__par_body_k(lo, hi)` plus a call
`__SIM__.parfor(n, __par_body_k)`.  `parfor` runs the body on T *real* Python threads of which
exactly one is runnable at any time: the baton is passed at bytecode boundaries
(`sys.monitoring` INSTRUCTION events on the outlined code objects only) as the scenario's
schedule says.  Who runs is data, never the OS or the GIL.

Array arguments and arrays allocated by the kernel are wrapped in tracking proxies that log
(virtual thread, array, element, R|W) inside a parallel region: the access-set oracle.
"""
from __future__ import annotations

import ast
import inspect
import random
import sys
import textwrap
import threading

import numpy as np

TOOL = 4  # sys.monitoring tool id
E = sys.monitoring.events


class SimRace(Exception):
    pass


class HarnessStall(Exception):
    pass


# ------------------------------------------------------------------ tracked arrays
class Tracker:
    def __init__(self) -> None:
        self.sim = None
        self.log = {}  # (arr name, element) -> [set(readers), set(writers)]
        self.naccess = 0

    def alloc_name(self) -> str:
        """Every array the kernel allocates is an object of its own: scratch made inside a parallel body belongs to
        the iteration that made it and must not be confused with another thread's."""
        self.nalloc = getattr(self, "nalloc", 0) + 1
        return f"alloc#{self.nalloc}"

    def rec(self, name, idxs, rw) -> None:
        sim = self.sim
        if sim is None or not sim.in_region:
            return
        t = sim.tid.get(threading.get_ident())
        if t is None:
            return
        for i in idxs:
            d = self.log.get((name, i))
            if d is None:
                d = self.log[(name, i)] = [set(), set()]
            d[rw].add(t)
            self.naccess += 1

    def conflicts(self):
        ww, rw = [], []
        for k, (rs, ws) in self.log.items():
            if len(ws) > 1:
                ww.append((k, sorted(ws)))
            elif ws and (rs - ws):
                rw.append((k, sorted(ws), sorted(rs - ws)))
        return ww, rw


class Row:
    """One record of a structured array (moments[ichan])."""

    def __init__(self, arr, i, name, tr) -> None:
        self.a, self.i, self.n, self.tr = arr, i, name, tr

    def __getitem__(self, f):
        self.tr.rec(self.n, [(self.i, f)], 0)
        return self.a[self.i][f]

    def __setitem__(self, f, v):
        self.tr.rec(self.n, [(self.i, f)], 1)
        self.a[self.i][f] = v


class TArr:
    """1-D tracked array proxy (ints, slices, record fields)."""

    def __init__(self, arr, name, tr) -> None:
        self.a, self.n, self.tr = arr, name, tr

    size = property(lambda s: s.a.size)
    shape = property(lambda s: s.a.shape)
    dtype = property(lambda s: s.a.dtype)
    ndim = property(lambda s: s.a.ndim)

    itemsize = property(lambda s: s.a.itemsize)
    nbytes = property(lambda s: s.a.nbytes)
    strides = property(lambda s: s.a.strides)
    flags = property(lambda s: s.a.flags)

    def __getattr__(self, k):
        # any other ndarray attribute / method (sum, copy, astype, ...): counts as a read of the whole array
        if k.startswith("__"):
            raise AttributeError(k)
        a = self.__dict__["a"]
        v = getattr(a, k)
        self.tr.rec(self.n, range(len(a)), 0)
        return v

    def __len__(self):
        return len(self.a)

    def _idx(self, k):
        if isinstance(k, slice):
            return range(*k.indices(len(self.a)))
        if isinstance(k, tuple):
            return [tuple(int(x) for x in k)]
        return [int(k) % len(self.a) if int(k) < 0 else int(k)]

    def __getitem__(self, k):
        if isinstance(k, str):  # field access on a whole structured array
            return TField(self, k)
        if self.a.dtype.names and not isinstance(k, slice):
            return Row(self.a, int(k), self.n, self.tr)
        self.tr.rec(self.n, self._idx(k), 0)
        return self.a[k]

    def __setitem__(self, k, v):
        self.tr.rec(self.n, self._idx(k), 1)
        self.a[k] = v

    def __array__(self, *a, **k):
        return self.a

    def __iter__(self):
        for i in range(len(self.a)):
            yield self[i]

    # whole-array arithmetic (`tim += part`, `a + b`): a read of every element, giving a plain array;
    # the in-place forms are a write of every element
    def _whole(self, rw):
        self.tr.rec(self.n, range(len(self.a)), rw)
        return self.a

    def __add__(self, o):
        return self._whole(0) + np.asarray(o)

    def __radd__(self, o):
        return np.asarray(o) + self._whole(0)

    def __sub__(self, o):
        return self._whole(0) - np.asarray(o)

    def __rsub__(self, o):
        return np.asarray(o) - self._whole(0)

    def __mul__(self, o):
        return self._whole(0) * np.asarray(o)

    def __rmul__(self, o):
        return np.asarray(o) * self._whole(0)

    def __truediv__(self, o):
        return self._whole(0) / np.asarray(o)

    def __iadd__(self, o):
        self._whole(0)
        self._whole(1)
        self.a += np.asarray(o)
        return self

    def __isub__(self, o):
        self._whole(0)
        self._whole(1)
        self.a -= np.asarray(o)
        return self

    def __imul__(self, o):
        self._whole(0)
        self._whole(1)
        self.a *= np.asarray(o)
        return self


class TField:
    def __init__(self, ta, f) -> None:
        self.ta, self.f = ta, f

    def __getitem__(self, k):
        idx = self.ta._idx(k)
        self.ta.tr.rec(self.ta.n, [(i, self.f) for i in idx], 0)
        return self.ta.a[self.f][k]

    def __setitem__(self, k, v):
        idx = self.ta._idx(k)
        self.ta.tr.rec(self.ta.n, [(i, self.f) for i in idx], 1)
        self.ta.a[self.f][k] = v


# ------------------------------------------------------------------ AST outlining
class _Outliner(ast.NodeTransformer):
    def __init__(self, fn_assigned_outside) -> None:
        self.n = 0
        self.outside = fn_assigned_outside
        self.reductions = []

    def visit_For(self, node):
        self.generic_visit(node)
        it = node.iter
        if not (isinstance(it, ast.Call) and isinstance(it.func, ast.Name) and it.func.id == "prange"):
            return node
        self.n += 1
        name = f"__par_body_{self.n}"
        # scalar reductions: Name op= expr, with Name bound outside and not plainly assigned in BODY
        plain = {t.id for st in ast.walk(ast.Module(node.body, [])) if isinstance(st, ast.Assign)
                 for t in st.targets if isinstance(t, ast.Name)}
        plain |= {n.id for st in ast.walk(ast.Module(node.body, [])) if isinstance(st, (ast.For,)) and isinstance(st.target, ast.Name) for n in [st.target]}
        reds = {}
        for st in ast.walk(ast.Module(node.body, [])):
            if isinstance(st, ast.AugAssign) and isinstance(st.target, ast.Name) and st.target.id in self.outside \
                    and st.target.id not in plain and isinstance(st.op, (ast.Add, ast.Mult)):
                reds[st.target.id] = "+" if isinstance(st.op, ast.Add) else "*"

        # numba semantics of a scalar reduction: every thread works on a PRIVATE copy that starts at
        # the identity (0 for +, 1 for *) and the copies are combined at the join.  The body keeps its
        # `x op= e` on a local; reads of x inside the body therefore see the thread's partial value
        # (which is what makes a loop-carried use of such a variable schedule dependent).
        body = list(node.body)
        # any other name bound outside and assigned in BODY is private (numba semantics);
        # names only *read* in BODY are closure reads of the enclosing frame.
        inner = ast.For(target=node.target,
                        iter=ast.Call(func=ast.Name("range", ast.Load()), args=[ast.Name("__lo", ast.Load()), ast.Name("__hi", ast.Load())], keywords=[]),
                        body=body, orelse=[])
        pre = [ast.Assign(targets=[ast.Name(v, ast.Store())], value=ast.Constant(0 if op == "+" else 1)) for v, op in reds.items()]
        post = [ast.Expr(ast.Call(func=ast.Attribute(ast.Name("__SIM__", ast.Load()), "red", ast.Load()),
                                  args=[ast.Constant(v), ast.Constant(op), ast.Name(v, ast.Load())], keywords=[])) for v, op in reds.items()]
        fdef = ast.FunctionDef(name=name,
                               args=ast.arguments(posonlyargs=[], args=[ast.arg("__lo"), ast.arg("__hi")], kwonlyargs=[], kw_defaults=[], defaults=[]),
                               body=pre + [inner] + post, decorator_list=[], type_params=[])
        call = ast.Expr(ast.Call(func=ast.Attribute(ast.Name("__SIM__", ast.Load()), "parfor", ast.Load()),
                                 args=[it.args[0], ast.Name(name, ast.Load())], keywords=[]))
        out = [fdef, call]
        for var, op in reds.items():
            out.append(ast.Assign(targets=[ast.Name(var, ast.Store())],
                                  value=ast.Call(func=ast.Attribute(ast.Name("__SIM__", ast.Load()), "red_join", ast.Load()),
                                                 args=[ast.Constant(var), ast.Constant(op), ast.Name(var, ast.Load())], keywords=[])))
            self.reductions.append(var)
        return out


def outline(disp, sim, tr):
    """Returns (python function with outlined prange bodies, body code objects, number of pranges)."""
    fn = disp.py_func
    src = textwrap.dedent(inspect.getsource(fn))
    tree = ast.parse(src)
    fdef = tree.body[0]
    fdef.decorator_list = []
    outside = {a.arg for a in fdef.args.args}
    for st in ast.walk(fdef):
        if isinstance(st, ast.Assign):
            for t in st.targets:
                for n in ast.walk(t):
                    if isinstance(n, ast.Name):
                        outside.add(n.id)
    tx = _Outliner(outside)
    tree = tx.visit(tree)
    ast.fix_missing_locations(tree)
    ns = dict(fn.__globals__)
    for k, v in list(ns.items()):
        if hasattr(v, "py_func"):
            ns[k] = v.py_func

    class NP:
        def __getattr__(s, k):
            return getattr(np, k)

        def empty_like(s, a, *x, **y):
            return TArr(np.zeros_like(np.asarray(a), *x, **y), tr.alloc_name(), tr)

        def zeros_like(s, a, *x, **y):
            return TArr(np.zeros_like(np.asarray(a), *x, **y), tr.alloc_name(), tr)

        def empty(s, *x, **y):
            return TArr(np.zeros(*x, **y), tr.alloc_name(), tr)

        def zeros(s, *x, **y):
            return TArr(np.zeros(*x, **y), tr.alloc_name(), tr)

    # tuning knobs: module-level ALL-CAPS integer constants (block sizes or thread counts at which another code
    # path takes over) are replaced for the run when the schedule says so, so that small blocks reach those paths
    sim.knobs_changed = []
    knob = sim.sch.get("knobs")
    if knob:
        for k, v in list(ns.items()):
            if k.isupper() and type(v) is int and v >= 2:
                ns[k] = int(knob)
                sim.knobs_changed.append(k)
    ns["np"] = NP()
    ns["__SIM__"] = sim
    code = compile(tree, f"<outlined {fn.__name__}>", "exec")
    exec(code, ns)  # noqa: S102 - the repository's own kernel source
    f = ns[fn.__name__]
    bodies = [c for c in f.__code__.co_consts if hasattr(c, "co_name") and c.co_name.startswith("__par_body_")]
    return f, bodies, tx.n


# ------------------------------------------------------------------ scheduler
class Sim:
    """schedule (scenario data):
       generative: {"threads": T, "chunk": k, "seed": s, "p": p}
       explicit:   {"threads": T, "work": [[[lo,hi],...] per thread], "passes": [[step, to], ...]}
    """

    def __init__(self, schedule: dict, tr: Tracker) -> None:
        self.sch = schedule
        self.T = max(1, int(schedule.get("threads", 1)))
        self.tr = tr
        tr.sim = self
        self.rng = random.Random(f"sched/{schedule.get('seed', 0)}")
        self.p = float(schedule.get("p", 0.0))
        self.explicit = "passes" in schedule
        self.passes = {int(s): int(t) for s, t in schedule.get("passes", [])}
        self.codes = []
        self.steps = 0
        self.trace = []  # [step, to] every baton pass
        self.work_used = None
        self.in_region = False
        self.tid = {}
        self.switches_with_2_alive = 0
        self.mid_rmw_switch = 0
        self.regions = 0
        self.conf = ([], [])
        self.partials = {}
        self.array_reds = {}  # name of a floating-point ARRAY reduced across threads -> threads that contributed

    # -- reductions (numba semantics: private partials combined at the join)
    def red(self, name, op, val) -> None:
        t = self.tid.get(threading.get_ident(), -1)
        key = (name, t)
        if isinstance(val, TArr):
            val = np.array(val.a)
        if isinstance(val, np.ndarray) and val.ndim >= 1 and val.dtype.kind in "fc":
            # numba accepts `arr += x` in a prange as an ARRAY reduction: per-thread private copies, added at the join.
            # The elements of the result are then sums of per-thread partial sums - computed from several threads,
            # grouped by the schedule (floating-point addition is not associative).
            self.array_reds.setdefault(name, set()).add(t)
        if op == "+":
            self.partials[key] = self.partials.get(key, 0) + val
        else:
            self.partials[key] = self.partials.get(key, 1) * val

    def red_join(self, name, op, init):
        out = init
        for (n, t) in sorted(k for k in self.partials if k[0] == name):
            out = out + self.partials[(n, t)] if op == "+" else out * self.partials[(n, t)]
        for k in [k for k in self.partials if k[0] == name]:
            del self.partials[k]
        return out

    def _work(self, n):
        T = self.T
        if self.explicit and "work" in self.sch:
            w = [[tuple(c) for c in th] for th in self.sch["work"]][:T]
            w += [[] for _ in range(T - len(w))]
            cover = sorted(i for th in w for lo, hi in th for i in range(lo, hi))
            if cover == list(range(n)):
                return w
        chunk = int(self.sch.get("chunk", 0))
        if chunk > 0:
            chunks = [(i, min(i + chunk, n)) for i in range(0, n, chunk)]
            self.rng.shuffle(chunks)
            return [chunks[t::T] for t in range(T)]
        q, r = divmod(n, T)
        work, lo = [], 0
        for t in range(T):
            hi = lo + q + (1 if t < r else 0)
            work.append([(lo, hi)] if hi > lo else [])
            lo = hi
        return work

    def parfor(self, n, body) -> None:
        n = int(n)
        T = self.T
        work = self._work(n)
        self.work_used = [[list(c) for c in th] for th in work]
        self.sems = [threading.Semaphore(0) for _ in range(T)]
        self.alive = list(range(T))
        self.tid = {}
        self.err = []
        self.tr.log = {}
        self.in_region = True
        self.regions += 1
        done = threading.Semaphore(0)

        def run(t):
            self.tid[threading.get_ident()] = t
            if not self.sems[t].acquire(timeout=120):
                self.err.append(HarnessStall(f"thread {t} never scheduled"))
                done.release()
                return
            try:
                for lo, hi in work[t]:
                    body(lo, hi)
            except BaseException as e:  # noqa: BLE001
                self.err.append(e)
            finally:
                self.alive.remove(t)
                if self.alive:
                    nxt = self._pick_on_finish()
                    self.trace.append([self.steps, nxt])
                    self.sems[nxt].release()
                done.release()

        sys.monitoring.use_tool_id(TOOL, "verif-vthreads")
        try:
            for c in self.codes:
                sys.monitoring.set_local_events(TOOL, c, E.INSTRUCTION)
            sys.monitoring.register_callback(TOOL, E.INSTRUCTION, self._on_instr)
            ths = [threading.Thread(target=run, args=(t,), daemon=True) for t in range(T)]
            for th in ths:
                th.start()
            first = self._pick_first()
            self.trace.append([self.steps, first])
            self.sems[first].release()
            for _ in range(T):
                if not done.acquire(timeout=300):
                    raise HarnessStall("parallel region did not finish")
            for th in ths:
                th.join(timeout=10)
        finally:
            for c in self.codes:
                sys.monitoring.set_local_events(TOOL, c, 0)
            sys.monitoring.register_callback(TOOL, E.INSTRUCTION, None)
            sys.monitoring.free_tool_id(TOOL)
            self.in_region = False
        ww, rw = self.tr.conflicts()
        self.conf[0].extend(ww)
        self.conf[1].extend(rw)
        if self.err:
            raise self.err[0]

    def _pick_first(self):
        if self.explicit:
            t = self.passes.get(self.steps)
            return t if t in self.alive else min(self.alive)
        return self.rng.choice(self.alive)

    def _pick_on_finish(self):
        if self.explicit:
            t = self.passes.get(self.steps)
            return t if t in self.alive else min(self.alive)
        return self.rng.choice(self.alive)

    def _on_instr(self, code, off):
        t = self.tid.get(threading.get_ident())
        if t is None:
            return
        self.steps += 1
        if len(self.alive) < 2:
            return
        if self.explicit:
            nxt = self.passes.get(self.steps)
            if nxt is None or nxt == t or nxt not in self.alive:
                return
        else:
            if self.rng.random() >= self.p:
                return
            nxt = self.rng.choice(self.alive)
            if nxt == t:
                return
        self.switches_with_2_alive += 1
        self.trace.append([self.steps, nxt])
        self.sems[nxt].release()
        if not self.sems[t].acquire(timeout=300):
            raise HarnessStall(f"thread {t} starved")


def run_kernel(disp, args, schedule):
    """Run `disp`'s outlined source under `schedule`.  Returns (ret, sim, tracker)."""
    tr = Tracker()
    sim = Sim(schedule, tr)
    f, bodies, npar = outline(disp, sim, tr)
    sim.codes = bodies
    wrapped = [TArr(a, f"arg{i}", tr) if isinstance(a, np.ndarray) else a for i, a in enumerate(args)]
    ret = f(*wrapped)
    if isinstance(ret, TArr):
        ret = ret.a
    sim.npar = npar
    return ret, sim, tr
