"""Driver: ./check <ID> [--tier quick|thorough] [--replay FILE] [--runs N] [--jobs J] [--budget S]

Exit codes: 0 = property held on everything explored (KNOWN-FINDING lines allowed);
1 = `VIOLATION property=<id> replay=<path>`; 2 = HARNESS-ERROR (never a verdict).
"""
from __future__ import annotations

import argparse
import hashlib
import json
import os
import shutil
import subprocess
import sys
import tempfile
import time

VERIF = os.path.dirname(os.path.dirname(os.path.abspath(__file__)))
PY = os.environ.get("VERIF_PYTHON", "/venv/bin/python")


def repo_dir() -> str:
    return os.environ.get("VERIF_REPO", "/repo")


def tree_hash(repo: str) -> str:
    h = hashlib.sha1()
    base = os.path.join(repo, "sigpyproc")
    for dp, dn, fn in sorted(os.walk(base)):
        dn.sort()
        for f in sorted(fn):
            if f.endswith(".py"):
                p = os.path.join(dp, f)
                h.update(p[len(base):].encode())
                with open(p, "rb") as fp:
                    h.update(fp.read())
    return h.hexdigest()[:16]


def child_env(prop: str, hashseed: str = "0") -> dict:
    env = dict(os.environ)
    repo = repo_dir()
    env["PYTHONPATH"] = f"{repo}:{VERIF}"
    env["PYTHONHASHSEED"] = hashseed
    env["PYTHONDONTWRITEBYTECODE"] = "1"
    env.setdefault("NUMBA_THREADING_LAYER", "workqueue")
    if prop != "C19":
        env["NUMBA_NUM_THREADS"] = "1"
    else:
        env["VERIF_PROP_IS_C19"] = "1"  # C19 sets thread counts itself, per run
    try:
        import importlib

        env.update(getattr(importlib.import_module(f"props.{prop.lower()}_meta"), "CHILD_ENV", None) or {})
    except ImportError:
        pass
    # VERIF_NUMBA_CACHE: dev tooling running many scratch trees side by side gives each its own
    # directory (and turns pruning off) so that concurrent drivers never prune one another
    # compiled kernels check their array indices: an out-of-range index in a serial kernel raises IndexError (a
    # deterministic, replayable failure) instead of corrupting the heap; the flag is not part of numba's cache
    # key, hence part of the directory name
    env.setdefault("NUMBA_BOUNDSCHECK", "1")
    cache = os.environ.get("VERIF_NUMBA_CACHE") or os.path.join(VERIF, ".cache", f"numba-bc{env['NUMBA_BOUNDSCHECK']}-" + tree_hash(repo))
    os.makedirs(cache, exist_ok=True)
    env["NUMBA_CACHE_DIR"] = cache
    env["SIGPYPROC_VERIF"] = "1"
    env["TERM"] = "dumb"
    env["NO_COLOR"] = "1"
    return env


def prune_caches(keep: str) -> None:
    base = os.path.join(VERIF, ".cache")
    if not os.path.isdir(base) or os.environ.get("VERIF_NUMBA_CACHE"):
        return
    ents = [e for e in os.listdir(base) if e.startswith("numba-") and os.path.join(base, e) != keep]
    ents.sort(key=lambda e: os.path.getmtime(os.path.join(base, e)))
    for e in ents[:-3]:
        shutil.rmtree(os.path.join(base, e), ignore_errors=True)


def run_worker(prop, seed, tier, stripe, nstripes, count, budget, outfile, extra=(), hashseed="0", env_extra=None):
    cmd = [PY, "-m", "sim.worker", prop, str(seed), tier, str(stripe), str(nstripes), str(count),
           str(budget), outfile, *extra]
    env = child_env(prop, hashseed)
    env.update(env_extra or {})
    return subprocess.Popen(cmd, cwd=VERIF, env=env, stdout=subprocess.PIPE,
                            stderr=subprocess.STDOUT, text=True)


def replay(prop: str, path: str) -> int:
    """Re-execute a replay file in a fresh interpreter."""
    cmd = [PY, "-m", "sim.replay", prop, path]
    p = subprocess.run(cmd, cwd=VERIF, env=child_env(prop), capture_output=True, text=True, timeout=900)
    sys.stdout.write(p.stdout)
    sys.stderr.write(p.stderr[-4000:])
    if p.returncode < 0:
        print(f"VIOLATION property={prop} replay={path}")
        print(f"  class={prop}/process-died detail=the replay was killed by signal {-p.returncode}")
        return 1
    return p.returncode


def main() -> int:
    ap = argparse.ArgumentParser()
    ap.add_argument("prop")
    ap.add_argument("--tier", default=os.environ.get("VERIF_TIER", "quick"))
    ap.add_argument("--replay")
    ap.add_argument("--runs", type=int, default=0)
    ap.add_argument("--jobs", type=int, default=int(os.environ.get("VERIF_JOBS", "16")))
    ap.add_argument("--budget", type=float, default=float(os.environ.get("VERIF_BUDGET_S", "0")))
    ap.add_argument("--no-evidence", action="store_true")
    a = ap.parse_args()
    prop = a.prop.upper()
    seed = int(os.environ.get("VERIF_SEED", "0"))
    sys.path.insert(0, VERIF)
    if a.replay:
        return replay(prop, a.replay)

    import importlib

    # the property module's static metadata is imported WITHOUT importing sigpyproc
    meta = importlib.import_module(f"props.{prop.lower()}_meta")
    tier = a.tier
    t0 = time.time()
    print(f"VERIF_SEED={seed} property={prop} tier={tier} repo={repo_dir()} tree={tree_hash(repo_dir())}")
    sys.stdout.flush()
    prune_caches(child_env(prop)["NUMBA_CACHE_DIR"])
    count = a.runs or (meta.QUICK_RUNS if tier == "quick" else 0)
    budget = a.budget or (0 if tier == "quick" else meta.THOROUGH_BUDGET_S)
    if tier == "thorough" and a.runs:
        budget = 0
    jobs = max(1, a.jobs)
    tmp = tempfile.mkdtemp(prefix="verif-drv-", dir="/dev/shm" if os.path.isdir("/dev/shm") else None)
    try:
        # 1. warm-up: one process compiles the kernels into the cache
        w = subprocess.run([PY, "-m", "sim.warm", prop], cwd=VERIF, env=child_env(prop), capture_output=True,
                           text=True, timeout=1800)
        if w.returncode < 0:
            # the library's most basic calls (every check's warm-up) kill the interpreter
            os.makedirs(os.path.join(VERIF, "replays"), exist_ok=True)
            path = os.path.join(VERIF, "replays", f"{prop}-warmup-crash.json")
            with open(path, "w") as fp:
                json.dump({"warmup_only": True, "property": prop, "expect": {"class": f"{prop}/process-died", "signal": -w.returncode}}, fp, indent=1)
            if replay(prop, path) == 1:
                return 1
            print("HARNESS-ERROR warm-up died once but not when repeated\n" + w.stderr[-3000:])
            return 2
        if w.returncode != 0:
            # the library raised in the warm-up calls: not judged here - the runs meet the same exception
            print("NOTE warm-up raised (continuing; the runs judge it): " + (w.stderr.strip().splitlines() or ["?"])[-1][:300])
        t_warm = time.time() - t0
        # 2. workers + one determinism worker under a different PYTHONHASHSEED
        procs = []
        for s in range(jobs):
            out = os.path.join(tmp, f"w{s}.json")
            wenv = meta.worker_env(s) if hasattr(meta, "worker_env") else None
            procs.append((s, out, run_worker(prop, seed, tier, s, jobs, count, budget, out, env_extra=wenv)))
        det_out = os.path.join(tmp, "det.json")
        det = run_worker(prop, seed, tier, 0, 1, count, 0, det_out, extra=("det",), hashseed="1234")
        results, harness_errors, crashes = [], [], []
        hard = (budget * 2 + 900) if budget else 2400
        for s, out, p in procs + [(-1, det_out, det)]:
            try:
                so, _ = p.communicate(timeout=max(60, hard - (time.time() - t0)))
            except subprocess.TimeoutExpired:
                p.kill()
                so, _ = p.communicate()
                harness_errors.append(f"worker {s} wall-clock kill\n{so[-2000:]}")
                continue
            if p.returncode < 0 and os.path.exists(out[:-5] + ".cur"):
                # the interpreter was killed by a signal while executing library code on an
                # in-domain scenario: reported as a violation iff the scenario kills a fresh
                # interpreter again (see finish_crashes)
                with open(out[:-5] + ".cur") as fp:
                    crashes.append((s, p.returncode, json.load(fp), so[-1500:]))
                continue
            if p.returncode != 0 or not os.path.exists(out):
                harness_errors.append(f"worker {s} exit {p.returncode}\n{so[-3000:]}")
                continue
            with open(out) as fp:
                r = json.load(fp)
            r["_base"] = out[:-5]
            if s >= 0:
                results.append(r)
            else:
                det_res = r
        if harness_errors:
            print("HARNESS-ERROR " + "\n".join(harness_errors))
            return 2
        if crashes:
            rc_c = finish_crashes(prop, crashes)
            if rc_c:
                return rc_c
        return finish(prop, meta, tier, seed, results, det_res, t0, t_warm, jobs, a.no_evidence)
    finally:
        shutil.rmtree(tmp, ignore_errors=True)
        # scratch disks of workers that died without cleaning up
        import glob

        for _s, _o, p in locals().get("procs", []) + ([(0, 0, locals()["det"])] if "det" in locals() else []):
            for d in glob.glob(f"/dev/shm/verif-{p.pid}-*") + glob.glob(os.path.join(tempfile.gettempdir(), f"verif-{p.pid}-*")):
                shutil.rmtree(d, ignore_errors=True)


def finish_crashes(prop, crashes) -> int:
    os.makedirs(os.path.join(VERIF, "replays"), exist_ok=True)
    rc = 0
    os.makedirs(os.path.join(VERIF, "replays"), exist_ok=True)
    for s, code, sc, tail in crashes[:3]:
        sc = dict(sc)
        wk = sc.pop("_worker", None)
        sc["expect"] = {"class": f"{prop}/process-died", "signal": -code,
                        "detail": "the interpreter was killed by a signal inside library code (memory-unsafe kernel call?)"}
        name = f"{prop}-crash-{hashlib.sha1(json.dumps(sc, sort_keys=True).encode()).hexdigest()[:12]}.json"
        path = os.path.join(VERIF, "replays", name)
        with open(path, "w") as fp:
            json.dump(sc, fp, indent=1, sort_keys=True)
        p = subprocess.run([PY, "-m", "sim.replay", prop, path], cwd=VERIF, env=child_env(prop), capture_output=True, text=True, timeout=900)
        if p.returncode < 0:
            print(f"VIOLATION property={prop} replay={path}")
            print(f"  class={prop}/process-died run={sc.get('run')} detail=worker {s} and the replay both died with signal {-p.returncode}")
            rc = 1
            continue
        # not with this scenario alone: with what the worker had executed before it?
        w = wk or {}
        if w:
            hist = {"property": prop, "history": {"seed": sc.get("seed"), "tier": w["tier"], "stripe": w["stripe"], "nstripes": w["nstripes"], "upto": sc.get("run")},
                    "expect": {"class": f"{prop}/process-died", "signal": -code,
                               "detail": "the interpreter was killed by a signal after this sequence of scenarios (memory corrupted by earlier library calls)"}}
            hpath = os.path.join(VERIF, "replays", f"{prop}-crash-history-s{sc.get('seed')}-w{w['stripe']}of{w['nstripes']}-upto{sc.get('run')}.json")
            with open(hpath, "w") as fp:
                json.dump(hist, fp, indent=1, sort_keys=True)
            p2 = subprocess.run([PY, "-m", "sim.replay", prop, hpath], cwd=VERIF, env=child_env(prop), capture_output=True, text=True, timeout=3000)
            if p2.returncode < 0:
                print(f"VIOLATION property={prop} replay={hpath}")
                print(f"  class={prop}/process-died run={sc.get('run')} detail=worker {s} died with signal {-code}; re-executing its scenarios in order in a fresh interpreter died with signal {-p2.returncode}")
                rc = 1
                continue
        print(f"HARNESS-ERROR worker {s} died with signal {-code} at run {sc.get('run')} but the replay did not (rc={p.returncode})\n{tail}")
        return 2
    return rc


def history_replay(prop, v, w):
    """Replay file made of the worker's run indices up to v['run']; returns its path if a fresh interpreter meets the
    same violation class at that index, after trying to reduce the history to one earlier scenario."""
    def attempt(hist, tag):
        doc = {"property": prop, "history": hist, "expect": {"class": v["class"], "detail": v["detail"], "info": v.get("info", {})}}
        path = os.path.join(VERIF, "replays", f"{prop}-history-s{hist['seed']}-run{hist['upto']}-{tag}.json")
        with open(path, "w") as fp:
            json.dump(doc, fp, indent=1, sort_keys=True)
        try:
            p = subprocess.run([PY, "-m", "sim.replay", prop, path], cwd=VERIF, env=child_env(prop), capture_output=True, text=True, timeout=3000)
        except subprocess.TimeoutExpired:
            return None
        return path if (p.returncode == 1 and "VIOLATION" in p.stdout) else None

    base = {"seed": v.get("seed", int(os.environ.get("VERIF_SEED", "0"))), "tier": w["tier"], "stripe": w["stripe"], "nstripes": w["nstripes"], "upto": v["run"]}
    full = attempt(base, "full")
    if not full:
        return None
    earlier = list(range(w["stripe"], v["run"], w["nstripes"]))
    for j in list(reversed(earlier))[:24]:
        one = attempt({**base, "only": [j, v["run"]]}, f"after{j}")
        if one:
            return one
    return full


def finish(prop, meta, tier, seed, results, det_res, t0, t_warm, jobs, no_evidence) -> int:
    import numpy as np

    from sim import findings as F

    runs = sum(r["runs"] for r in results)
    agg = {"probes": {}, "faults": {}, "observations": {}}
    for r in results:
        for key in agg:
            for k, v in r[key].items():
                agg[key][k] = agg[key].get(k, 0) + v
    io_steps = sum(r["io_steps"] for r in results)
    sched_steps = sum(r["sched_steps"] for r in results)
    dig = np.concatenate([np.load(r["_base"] + ".dig.npy") for r in results]) if results else np.array([])
    sig = np.concatenate([np.load(r["_base"] + ".sig.npy") for r in results]) if results else np.array([])
    nt = np.concatenate([np.load(r["_base"] + ".nt.npy") for r in results]) if results else np.array([])
    distinct_digests = int(len(np.unique(dig)))
    distinct_sigs = int(len(np.unique(sig)))
    distinct_nt = int(len(np.unique(nt)))
    errors = [e for r in results for e in r["errors"]]
    # determinism: same run index, other process, other PYTHONHASHSEED => same event digest
    first = {}
    for r in results:
        first.update(r["first_digests"])
    pairs, mism = 0, []
    for k, d in det_res["first_digests"].items():
        if k in first:
            pairs += 1
            if first[k] != d:
                mism.append(k)
    known_lines = {}
    for r in results:
        for kid, ent in r["known"].items():
            e = known_lines.setdefault(kid, {"count": 0, "what": ent["what"], "example_run": ent["example_run"]})
            e["count"] += ent["count"]
    violations = sorted((v for r in results for v in r["violations"]), key=lambda v: v["run"])
    vcount = sum(r.get("violation_count", 0) for r in results)
    rc = 0
    det_failed = bool(mism)
    for kid, e in sorted(known_lines.items()):
        print(f"KNOWN-FINDING: property={prop} {kid}: {e['what']} (hit {e['count']}x, e.g. run {e['example_run']})")
    replay_paths = []
    if violations:
        os.makedirs(os.path.join(VERIF, "replays"), exist_ok=True)
        seen = set()
        unconfirmed = []
        tried = {}
        for v in violations:
            # per violation class: replay recorded (minimised) scenarios until one reproduces in a fresh
            # interpreter; hits that do not reproduce depended on what the worker had executed before
            if "scenario" not in v or v["class"] in seen or tried.get(v["class"], 0) >= 4:
                continue
            tried[v["class"]] = tried.get(v["class"], 0) + 1
            p = None
            for form, dig_key in (("scenario", "digest"), ("scenario_orig", "digest_orig")):
                if form not in v:
                    continue
                sc = dict(v[form])
                # the unminimised form is replayed on its class only (its digest belongs to a process with history)
                sc["expect"] = {"class": v["class"], "detail": v["detail"], "info": v.get("info", {})}
                if form == "scenario" and not v.get("no_digest"):
                    sc["expect"]["event_digest"] = "sha256:" + v[dig_key]
                name = f"{prop}-{v[dig_key][:12]}{'' if form == 'scenario' else '-unminimised'}.json"
                path = os.path.join(VERIF, "replays", name)
                with open(path, "w") as fp:
                    json.dump(sc, fp, indent=1, sort_keys=True)
                # the replay must reproduce in a fresh interpreter before it is reported
                p = subprocess.run([PY, "-m", "sim.replay", prop, path], cwd=VERIF, env=child_env(prop),
                                   capture_output=True, text=True, timeout=900)
                if p.returncode == 1 and "VIOLATION" in p.stdout:
                    break
            if p is None:
                continue
            if p.returncode == 1 and "VIOLATION" in p.stdout:
                print(f"VIOLATION property={prop} replay={path}")
                print(f"  class={v['class']} run={v['run']} detail={v['detail'][:300]}")
                replay_paths.append(path)
                seen.add(v["class"])
                unconfirmed = [u for u in unconfirmed if u[0]["class"] != v["class"]]
            else:
                unconfirmed.append((v, p.stdout[-1500:] + p.stderr[-1500:]))
        # Violations seen in a worker that no single scenario reproduces in a fresh interpreter: state leaked from an
        # EARLIER scenario of the same process (module-level caches, defaults evaluated once, ...).  Re-execute the
        # worker's scenario history in a fresh interpreter; if the violation reappears at the same run index the
        # history is the replay file, minimised to "one earlier scenario + this one" when that suffices.
        done_hist = set()
        for v, _tail in list(unconfirmed):
            w = v.get("worker")
            if not w or v["class"] in seen or v["class"] in done_hist or len(done_hist) >= 2:
                continue
            done_hist.add(v["class"])
            hpath = history_replay(prop, v, w)
            if hpath:
                print(f"VIOLATION property={prop} replay={hpath}")
                print(f"  class={v['class']} run={v['run']} detail={v['detail'][:300]} (needs what the process executed before: the replay file is a scenario history)")
                replay_paths.append(hpath)
                seen.add(v["class"])
                unconfirmed = [u for u in unconfirmed if u[0]["class"] != v["class"]]
        if replay_paths:
            rc = 1
            for v, _tail in unconfirmed:
                # seen in a worker but not in a fresh interpreter: the outcome depended on what the
                # worker process had executed before (state leaking across runs inside the library)
                print(f"UNCONFIRMED run={v['run']} class={v['class']}: did not reproduce in a fresh interpreter (depends on process history)")
        elif unconfirmed:
            v, tail = unconfirmed[0]
            print(f"HARNESS-ERROR replay of run {v['run']} ({v['class']}) did not reproduce:\n{tail}")
            rc = 2
    if errors:
        if rc == 1:
            # a confirmed, replayable violation takes precedence: exceptions the harness could not attribute to a
            # call under test are then, most likely, the same defect met in a context call
            print(f"NOTE {len(errors)} run(s) raised outside any call under test, first: " + str(errors[0].get("error", ""))[:400].replace("\n", " | "))
        else:
            print(f"HARNESS-ERROR {len(errors)} run(s) raised inside the harness; first:")
            print(json.dumps(errors[0], indent=1)[:6000])
            rc = 2
    if det_failed:
        if rc == 1:
            # a confirmed, replayable violation takes precedence; the digest mismatch is then most
            # likely the same defect seen through state that leaks from one run into the next
            print(f"NOTE determinism self-check: run indices {mism[:10]} gave different event digests in another process "
                  "(outcome depends on what the process executed before)")
        else:
            print(f"HARNESS-ERROR determinism self-check failed for run indices {mism[:10]}")
            rc = 2
    wall = time.time() - t0
    if not no_evidence and rc != 2:
        samples = [s for r in results for s in r["samples"]][:4]
        cov = {
            "evaluations": int(runs),
            "distinct_nontrivial": distinct_nt,
            "rule": meta.RULE,
            "samples": samples,
            "exhaustive": False,
            "seeds": {"VERIF_SEED": seed, "run_indices": [0, int(max((r["indices"][1] for r in results), default=0))]},
            "runs_per_hour": int(runs / max(wall - t_warm, 1e-6) * 3600),
            "simulated_time": {"io_steps": int(io_steps), "scheduler_steps": int(sched_steps),
                               "note": "sigpyproc3 has no clock; simulated time is counted in simulated I/O calls and scheduler steps"},
            "faults_fired": agg["faults"],
            "probes": agg["probes"],
            "probes_at_zero": [p for p in getattr(meta, "PROBES", []) if not agg["probes"].get(p)],
            "observations_not_verdicts": agg["observations"],
            "distinct_event_digests": distinct_digests,
            "distinct_coverage_signatures": distinct_sigs,
            "determinism_pairs_checked": pairs,
            "determinism_mismatches": len(mism),
            "known_findings_hit": {k: v["count"] for k, v in known_lines.items()},
            "components": meta.COMPONENTS,
            "jobs": jobs,
            "warmup_s": round(t_warm, 1),
            "tree": tree_hash(repo_dir()),
        }
        if hasattr(meta, "extra_coverage"):
            cov.update(meta.extra_coverage(agg))
        ev = {
            "property_id": prop, "tier": tier, "seed": seed, "level": meta.LEVEL, "coverage": cov,
            "assumptions": meta.ASSUMPTIONS, "wall_s": round(wall, 2), "violations": int(vcount),
        }
        os.makedirs(os.path.join(VERIF, "evidence"), exist_ok=True)
        with open(os.path.join(VERIF, "evidence", f"{prop}.json"), "w") as fp:
            json.dump(ev, fp, indent=1, sort_keys=True)
    zero = [p for p in getattr(meta, "PROBES", []) if not agg["probes"].get(p)]
    if zero:
        print(f"coverage-warning: probes at zero: {zero}")
    print(f"{prop} {tier}: runs={runs} nontrivial-distinct={distinct_nt} digests={distinct_digests} "
          f"faults={agg['faults']} det-pairs={pairs} violations={vcount} known={sum(v['count'] for v in known_lines.values())} "
          f"wall={wall:.1f}s rc={rc}")
    return rc


if __name__ == "__main__":
    sys.exit(main())
