"""Scenario minimisation: ddmin over list-valued parts, then integer lowering, while the run
keeps failing with the *same violation class*.  Pure function of (scenario, code)."""
from __future__ import annotations

import copy

from .core import run_scenario


def _get(sc, path):
    cur = sc
    for p in path:
        cur = cur[p]
    return cur


def _set(sc, path, val):
    cur = sc
    for p in path[:-1]:
        cur = cur[p]
    cur[path[-1]] = val


def _int_paths(obj, prefix=()):
    """All paths to int (not bool) leaves."""
    out = []
    if isinstance(obj, dict):
        for k in sorted(obj):
            if k.startswith("_") or k in ("seed", "run", "format", "vseed", "dseed", "attempts"):
                continue
            out += _int_paths(obj[k], prefix + (k,))
    elif isinstance(obj, list):
        for i, v in enumerate(obj):
            out += _int_paths(v, prefix + (i,))
    elif isinstance(obj, int) and not isinstance(obj, bool):
        out.append(prefix)
    return out


def minimise(mod, sc: dict, cls: str, max_execs: int = 300, accept=None):
    """Returns (minimised scenario, executions used).  Bounded by executions and by wall time (the clock
    is read between runs only: it bounds the effort of minimisation, never the outcome of a run; whatever
    is returned is re-verified in a fresh interpreter before it is reported)."""
    import time

    t_end = time.time() + float(getattr(mod, "SHRINK_SECONDS", 120))
    fixup = getattr(mod, "fixup", None)
    list_keys = getattr(mod, "SHRINK_LISTS", ("ops", "faults"))
    min_int = getattr(mod, "SHRINK_MIN", {})
    execs = 0

    def fails(cand) -> bool:
        nonlocal execs
        if execs >= max_execs or time.time() > t_end:
            execs = max_execs
            return False
        if fixup is not None:
            try:
                cand2 = fixup(copy.deepcopy(cand))
            except Exception:  # noqa: BLE001
                return False
            if cand2 is None:
                return False
            cand.clear()
            cand.update(cand2)
        execs += 1
        out = run_scenario(mod, cand)
        if out.violation != cls or out.error is not None:
            return False
        return accept is None or bool(accept(out))

    best = copy.deepcopy(sc)
    progress = True
    while progress and execs < max_execs:
        progress = False
        # 1. ddmin on lists
        for key in list_keys:
            path = key if isinstance(key, tuple) else (key,)
            try:
                lst = _get(best, path)
            except (KeyError, IndexError, TypeError):
                continue
            if not isinstance(lst, list) or not lst:
                continue
            n = 2
            while len(lst) >= 1 and execs < max_execs:
                chunk = max(1, len(lst) // n)
                removed = False
                for i in range(0, len(lst), chunk):
                    cand = copy.deepcopy(best)
                    new = lst[:i] + lst[i + chunk :]
                    _set(cand, path, new)
                    if hasattr(mod, "after_list_removal"):
                        mod.after_list_removal(cand, key, i, chunk)
                    if fails(cand):
                        best = cand
                        lst = _get(best, path)
                        removed = True
                        progress = True
                        break
                if not removed:
                    if chunk == 1:
                        break
                    n = min(len(lst), n * 2)
                else:
                    n = max(2, n - 1)
                if not lst:
                    break
        # 2. integer lowering (towards the minimum: 0, or mod.SHRINK_MIN[key])
        for path in _int_paths(best):
            if execs >= max_execs:
                break
            try:
                v = _get(best, path)
            except (KeyError, IndexError, TypeError):
                continue
            if not isinstance(v, int) or isinstance(v, bool):
                continue
            lo = 0
            for p in reversed(path):
                if isinstance(p, str):
                    lo = min_int.get(p, 0)
                    break
            if v <= lo:
                continue
            for target in (lo, v // 2, v - 1):
                if target < lo or target >= v:
                    continue
                cand = copy.deepcopy(best)
                _set(cand, path, target)
                if fails(cand):
                    best = cand
                    progress = True
                    break
        # 3. simpler alternatives for named keys (mod.SHRINK_SIMPLE: key -> simplest value)
        simple = getattr(mod, "SHRINK_SIMPLE", {})
        if simple:
            for path in _key_paths(best, set(simple)):
                if execs >= max_execs:
                    break
                try:
                    v = _get(best, path)
                except (KeyError, IndexError, TypeError):
                    continue
                target = simple[path[-1]]
                if v == target:
                    continue
                cand = copy.deepcopy(best)
                _set(cand, path, target)
                if fails(cand):
                    best = cand
                    progress = True
    return best, execs


def _key_paths(obj, keys, prefix=()):
    out = []
    if isinstance(obj, dict):
        for k in sorted(obj):
            if k in keys:
                out.append(prefix + (k,))
            out += _key_paths(obj[k], keys, prefix + (k,))
    elif isinstance(obj, list):
        for i, v in enumerate(obj):
            out += _key_paths(v, keys, prefix + (i,))
    return out
