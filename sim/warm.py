"""Warm-up: import the library and compile what the property needs into the numba cache."""
from __future__ import annotations

import sys

from .core import cleanup_scratch, enter_private_cwd
from .worker import load_prop


def main(argv) -> int:
    enter_private_cwd()
    mod = load_prop(argv[0])
    if hasattr(mod, "warm"):
        mod.warm()
    cleanup_scratch()
    return 0


if __name__ == "__main__":
    sys.exit(main(sys.argv[1:]))
