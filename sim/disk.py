"""SimDisk: the I/O seam.  Installed from the harness, no edit to /repo.

* names `io`, `np` inside the namespace of `sigpyproc.io.fileio` are replaced by delegating
  shims, so that every `io.FileIO(...)` opened by FileBase is a `SimFileIO` and every counted
  `np.fromfile` is an event;
* `FileWriter.cwrite` / `FileWriter.write` are wrapped (class attributes) so that each write
  call is an event with before/after file sizes, and torn / ENOSPC / crash faults are emulated
  by truncating the file to `size_before + j` *after* the real call (sound only while the
  writer is append-only, which is asserted on every call).

Faults are data: a list of dicts `{kind, op, call, arg}` addressed by (operation index, index of
the I/O call of that category inside the operation).
"""
from __future__ import annotations

import errno
import io as _real_io
import os

import numpy as _real_np

from .core import SimCrash, SimLivelock, Violation

CURRENT = None  # the active SimDisk (one per run)

READ_KINDS = {"R1", "R2", "R3", "W5"}
WRITE_KINDS = {"W1", "W2", "W3", "W4"}


class _Shim:
    """Module look-alike: overrides a few names, delegates the rest."""

    def __init__(self, real, **over) -> None:
        object.__setattr__(self, "_real", real)
        object.__setattr__(self, "_over", over)

    def __getattr__(self, name):
        over = object.__getattribute__(self, "_over")
        if name in over:
            return over[name]
        return getattr(object.__getattribute__(self, "_real"), name)


class SimFileIO(_real_io.FileIO):
    """io.FileIO whose readinto / write are simulator events."""

    def readinto(self, b):  # noqa: D102
        sim = CURRENT
        if sim is None or not sim.active:
            return super().readinto(b)
        mv = memoryview(b)
        req = len(mv)
        k, f = sim.next_call("r")
        name = sim.ctx.rel(self.name)
        if f is not None:
            kind = f["kind"]
            if kind == "W5":
                sim.fire(f)
                sim.ctx.log("CRASH-at-read", name, k)
                sim.crash()
                raise SimCrash(f"at input read #{k}")
            if kind == "R2":
                sim.fire(f)
                sim.ctx.log("readinto", name, req, "EIO")
                raise OSError(errno.EIO, "simulated EIO")
            if kind == "R3":
                sim.fire(f)
                sim.ctx.log("readinto", name, req, "None")
                return None
            if kind == "R1" and req > 1:
                n = max(1, min(int(f.get("arg", 1)), req - 1))
                got = super().readinto(mv[:n])
                if got == n:  # really shorter than what a full read would have given?
                    sim.fire(f)
                sim.ctx.log("readinto", name, req, "short", got)
                return got
        got = super().readinto(mv)
        sim.ctx.log("readinto", name, req, got)
        hook = sim.after_read
        if hook is not None and sim.after_read_at is not None and k >= sim.after_read_at:
            # a scheduling point: between this read and the library's use of what it read, ANOTHER task of the process
            # runs (what a thread switch at the GIL release of readinto amounts to) - here, to completion
            sim.after_read = None
            sim.ctx.log("SWITCH-after-read", name, k)
            hook()
        return got

    def write(self, b):  # noqa: D102
        sim = CURRENT
        if sim is not None and sim.active and sim.in_wrapped_write:
            # the library writes this block with a RAW unbuffered write: a disk that fills up makes such a
            # write return a short count (no exception); only the next write fails with ENOSPC
            sim.raw_writes_in_call += 1
            f = sim.pending_w3
            if f is not None and not f.get("_done"):
                mv = memoryview(b)
                j = max(0, min(int(f.get("arg", 0)), len(mv)))
                n = super().write(mv[:j]) if j else 0
                sim.fire(f)
                sim.enospc = True
                sim.short_raw_write = True
                sim.ctx.log("SHORT-raw-write", sim.ctx.rel(self.name), len(mv), n)
                return n
            if sim.enospc:
                raise OSError(errno.ENOSPC, "simulated ENOSPC (sticky)")
            cap = sim.raw_write_cap
            if cap and sim.cur_write_kind == "cwrite":
                # W4: one write(2) transfers at most `cap` bytes (Linux: 0x7ffff000; here a few bytes) and says so in
                # its return value - no error, the caller is expected to write the rest.  Only for DATA written with a
                # raw write from inside cwrite (the pinned tree writes data with ndarray.tofile, whose C stream loops
                # by itself, so this never fires there).
                mv = memoryview(b).cast("B")
                if len(mv) > cap:
                    n = super().write(mv[:cap])
                    sim.ctx.faults["W4"] += 1
                    sim.ctx.log("PARTIAL-raw-write", sim.ctx.rel(self.name), len(mv), n)
                    return n
            return super().write(b)
        if sim is None or not sim.active:
            return super().write(b)
        # a raw write that did not come through FileWriter.write/cwrite
        sim.ctx.log("rawwrite", sim.ctx.rel(self.name), len(memoryview(b)))
        sim.ctx.io_steps += 1
        return super().write(b)


def _sim_fromfile(file, dtype=float, count=-1, sep="", offset=0, **kw):
    sim = CURRENT
    if sim is None or not sim.active or not hasattr(file, "fileno"):
        return _real_np.fromfile(file, dtype=dtype, count=count, sep=sep, offset=offset, **kw)
    k, f = sim.next_call("r")
    name = sim.ctx.rel(getattr(file, "name", "?"))
    if f is not None and f["kind"] == "W5":
        sim.fire(f)
        sim.ctx.log("CRASH-at-read", name, k)
        sim.crash()
        raise SimCrash(f"at input read #{k}")
    if f is not None and f["kind"] == "R2":
        sim.fire(f)
        sim.ctx.log("fromfile", name, int(count), "EIO")
        raise OSError(errno.EIO, "simulated EIO")
    data = _real_np.fromfile(file, dtype=dtype, count=count, sep=sep, offset=offset, **kw)
    sim.ctx.log("fromfile", name, int(count), int(len(data)))
    return data


class SimDisk:
    """One per run.  `with SimDisk(ctx, faults) as sim:` installs the seam."""

    def __init__(self, ctx, faults=None, budget_per_op: int = 4096) -> None:
        self.ctx = ctx
        self.faults = [dict(f) for f in (faults or [])]
        self.active = False
        self.op = -1
        self.calls = {"r": 0, "w": 0}
        self.op_calls = 0
        self.budget = budget_per_op
        self.in_wrapped_write = False
        self.enospc = False  # sticky after W3 until free_space()
        self.write_hook = None  # callable(kind, writer, payload, size_before, size_after, append_only)
        self.crash_hook = None  # callable(): snapshot the disk at the crash instant
        self.pending_w3 = None  # a W3 fault addressed to the write call in progress (raw-write path)
        self.raw_writes_in_call = 0
        self.short_raw_write = False
        self.raw_write_cap = int((getattr(ctx, "sc", None) or {}).get("write_cap") or 0)  # W4 (see SimFileIO.write)
        self.cur_write_kind = None
        self.after_read = None  # one-shot callable run right after the read call number `after_read_at` of the current op
        self.after_read_at = None
        self.fine_grained = False  # observe the file at every C-call boundary inside a write call (C20 golden run)
        self._saved = None

    # ---- installation
    def __enter__(self):
        global CURRENT
        import sigpyproc.io.fileio as F

        self._saved = (F.io, F.np, F.FileWriter.cwrite, F.FileWriter.write)
        F.io = _Shim(_real_io, FileIO=SimFileIO)
        F.np = _Shim(_real_np, fromfile=_sim_fromfile)
        orig_cwrite, orig_write = F.FileWriter.cwrite, F.FileWriter.write
        sim = self

        def cwrite(self_w, arr):
            return sim._wrapped_write("cwrite", orig_cwrite, self_w, arr)

        def write(self_w, bo):
            return sim._wrapped_write("write", orig_write, self_w, bo)

        F.FileWriter.cwrite = cwrite
        F.FileWriter.write = write
        CURRENT = self
        self.active = True
        return self

    def __exit__(self, *exc):
        global CURRENT
        import sigpyproc.io.fileio as F

        F.io, F.np, F.FileWriter.cwrite, F.FileWriter.write = self._saved
        CURRENT = None
        self.active = False
        return False

    # ---- operation framing / fault addressing
    def begin_op(self, i: int, budget: int | None = None) -> None:
        self.op = i
        self.calls = {"r": 0, "w": 0}
        self.op_calls = 0
        if budget is not None:
            self.budget = budget

    def next_call(self, cat: str):
        k = self.calls[cat]
        self.calls[cat] = k + 1
        self.op_calls += 1
        self.ctx.io_steps += 1
        if self.op_calls > self.budget:
            self.ctx.log("LIVELOCK", self.op, self.op_calls)
            raise SimLivelock(f"op {self.op}: more than {self.budget} I/O calls")
        want = READ_KINDS if cat == "r" else WRITE_KINDS
        for f in self.faults:
            if f.get("op") == self.op and f.get("call") == k and f["kind"] in want and not f.get("_done"):
                return k, f
        return k, None

    def fire(self, f) -> None:
        f["_done"] = True
        self.ctx.fired(f["kind"])

    def free_space(self) -> None:
        self.enospc = False

    def crash(self) -> None:
        if self.crash_hook is not None:
            self.crash_hook()

    # ---- write side
    def _wrapped_write(self, kind, orig, writer, payload):
        if self.in_wrapped_write:
            # FileWriter.write called from inside FileWriter.cwrite (or vice versa): part of the same write call
            return orig(writer, payload)
        k, f = self.next_call("w")
        fo = writer.file_obj
        name = self.ctx.rel(fo.name)
        fd = fo.fileno()
        size_before = os.fstat(fd).st_size
        pos_before = fo.tell()
        if self.enospc:
            self.ctx.log(kind, name, "ENOSPC-sticky")
            raise OSError(errno.ENOSPC, "simulated ENOSPC (sticky)")
        self.in_wrapped_write = True
        self.cur_write_kind = kind
        self.raw_writes_in_call = 0
        self.short_raw_write = False
        self.pending_w3 = f if (f is not None and f["kind"] == "W3" and kind == "cwrite") else None
        inflight = []  # (size, bytes beyond size_before) seen at C-call boundaries INSIDE the write call
        if self.fine_grained:
            import sys

            last = [size_before]

            def prof(frame, event, arg, _fd=fd):
                if event[0] == "c":  # c_call / c_return / c_exception
                    try:
                        st = os.fstat(_fd).st_size
                    except OSError:
                        return
                    if st != last[0]:
                        last[0] = st
                        inflight.append((st, os.pread(_fd, max(0, st - size_before), size_before) if st > size_before else b""))

            sys.setprofile(prof)
        try:
            orig(writer, payload)
        finally:
            if self.fine_grained:
                import sys

                sys.setprofile(None)
            self.in_wrapped_write = False
            self.pending_w3 = None
        size_after = os.fstat(fd).st_size
        if self.short_raw_write:
            # the fault was delivered the way a raw write reports it (short count): nothing more to emulate
            self.ctx.log(kind, name, size_before, size_after - size_before, "short-raw")
            if self.write_hook is not None:
                self.write_hook(kind, writer, payload, size_before, size_after, True)
            return None
        if inflight:
            final_tail = os.pread(fd, max(0, size_after - size_before), size_before)
            for st, tail in inflight:
                self.ctx.probe("in-flight-states-inside-a-write")
                if st < size_before or final_tail[: len(tail)] != tail:
                    self.ctx.log("IN-FLIGHT-NOT-PREFIX", name, st - size_before, len(final_tail))
                    raise Violation("C20/append-only/in-flight-state-inside-a-write-is-not-a-prefix",
                                    f"{kind} #{k} on {name}: while the call was running the file held {st - size_before} bytes beyond the "
                                    f"previous end that are not a prefix of the {len(final_tail)} bytes finally appended (a crash there leaves invalid data)",
                                    {"api": kind, "write_index": k})
        pos_after = fo.tell()
        grew = size_after - size_before
        self.ctx.log(kind, name, size_before, grew)
        append_only = pos_before == size_before and pos_after == size_after and grew >= 0
        if not append_only:
            self.ctx.log("NOT-APPEND-ONLY", name, pos_before, size_before, pos_after, size_after)
        if self.write_hook is not None:
            self.write_hook(kind, writer, payload, size_before, size_after, append_only)
        if f is not None:
            fk = f["kind"]
            if fk == "W1":
                self.fire(f)
                self.ctx.log("CRASH-after", kind, name, k)
                self.crash()
                raise SimCrash(f"after {kind} #{k}")
            if not append_only:
                # emulation by truncation would be unsound; report what it is instead
                raise Violation("C20/append-only/write-not-at-eof", f"{kind} #{k} on {name}")
            j = max(0, min(int(f.get("arg", 0)), grew))
            if fk == "W2":
                if j < grew:
                    os.truncate(fd, size_before + j)
                    fo.seek(size_before + j)
                self.fire(f)
                self.ctx.log("CRASH-torn", kind, name, k, j)
                self.crash()
                raise SimCrash(f"torn {kind} #{k} at byte {j}")
            if fk in ("W3", "W4"):
                if j < grew:
                    os.truncate(fd, size_before + j)
                    fo.seek(size_before + j)
                self.enospc = True
                self.fire(f)
                if fk == "W4" and kind == "write" and j > 0:
                    # short raw write: reported only through the (ignored) return value;
                    # the disk is full from now on
                    self.ctx.log("SHORT-write", name, k, j)
                    return None
                self.ctx.log("ENOSPC", kind, name, k, j)
                raise OSError(errno.ENOSPC, "simulated ENOSPC")
        return None
