"""Domain guards on the compiled kernels (installed from the harness).

The compiled kernels do no bounds checking: a caller that passes an index, a delay or a shape
outside the arrays makes them read or write out of bounds, which can silently corrupt the
result or kill the process.  While a scenario runs, `sigpyproc.core.kernels.<name>` is replaced
by a pass-through that first checks that every element the kernel is about to touch exists; a
call outside the domain is reported as the violation it is (the caller mis-addressed a block)
instead of being executed.
"""
from __future__ import annotations

import numpy as np

from .core import Violation


class KernelGuard:
    def __init__(self, prop: str, ctx) -> None:
        self.prop, self.ctx = prop, ctx
        self.saved = {}
        self.calls = 0

    def _fail(self, name, why):
        raise Violation(f"{self.prop}/kernel-called-out-of-domain/{name}", why, {"api": name, "kernel_guard": True})

    def __enter__(self):
        import sigpyproc.core.kernels as K

        g = self

        def need(name, cond, why):
            try:
                ok = bool(cond)
            except Exception:  # noqa: BLE001 - a guard that cannot evaluate never judges
                return
            if not ok:
                g._fail(name, why)

        def extract_tim(inarray, outarray, nchans, nsamps, index):
            need("extract_tim", nchans * nsamps <= len(inarray), f"reads {nchans * nsamps} of {len(inarray)}")
            need("extract_tim", 0 <= index and index + nsamps <= len(outarray), f"writes [{index},{index + nsamps}) of {len(outarray)}")
            return g.saved["extract_tim"](inarray, outarray, nchans, nsamps, index)

        def extract_bpass(inarray, outarray, nchans, nsamps):
            need("extract_bpass", nchans * nsamps <= len(inarray) and nchans <= len(outarray), "shape")
            return g.saved["extract_bpass"](inarray, outarray, nchans, nsamps)

        def mask_channels(array, mask, maskvalue, nchans, nsamps):
            need("mask_channels", nchans * nsamps <= len(array) and nchans <= len(mask), "shape")
            return g.saved["mask_channels"](array, mask, maskvalue, nchans, nsamps)

        def dedisperse(inarray, outarray, delays, maxdelay, nchans, nsamps, index):
            d = np.asarray(delays)
            need("dedisperse", len(d) >= nchans and (nchans == 0 or (d[:nchans].min() >= 0 and d[:nchans].max() <= maxdelay)), "delays outside [0, maxdelay]")
            need("dedisperse", nchans * nsamps <= len(inarray), "reads past the block")
            n = nsamps - maxdelay
            need("dedisperse", n <= 0 or (0 <= index and index + n <= len(outarray)), f"writes [{index},{index + n}) of {len(outarray)}")
            return g.saved["dedisperse"](inarray, outarray, delays, maxdelay, nchans, nsamps, index)

        def subband(inarray, outarray, delays, chan_to_sub, maxdelay, nchans, nsubs, nsamps):
            d, c2s = np.asarray(delays), np.asarray(chan_to_sub)
            need("subband", len(d) >= nchans and len(c2s) >= nchans, "table lengths")
            need("subband", nchans == 0 or (d[:nchans].min() >= 0 and d[:nchans].max() <= maxdelay), "delays outside [0, maxdelay]")
            need("subband", nchans == 0 or (c2s[:nchans].min() >= 0 and c2s[:nchans].max() < nsubs), "chan_to_sub outside [0, nsubs)")
            need("subband", nchans * nsamps <= len(inarray), "reads past the block")
            n = nsamps - maxdelay
            need("subband", n <= 0 or n * nsubs <= len(outarray), f"writes {n * nsubs} of {len(outarray)}")
            return g.saved["subband"](inarray, outarray, delays, chan_to_sub, maxdelay, nchans, nsubs, nsamps)

        def invert_freq(array, nchans, nsamps):
            need("invert_freq", nchans * nsamps <= len(array), "shape")
            return g.saved["invert_freq"](array, nchans, nsamps)

        def remove_zerodm(inarray, outarray, bpass, chanwts, nchans, nsamps):
            need("remove_zerodm", nchans * nsamps <= min(len(inarray), len(outarray)) and nchans <= min(len(bpass), len(chanwts)), "shape")
            return g.saved["remove_zerodm"](inarray, outarray, bpass, chanwts, nchans, nsamps)

        def downsample_2d_mean_flat(array, factor1, factor2, dim1, dim2):
            need("downsample_2d_mean_flat", factor1 >= 1 and factor2 >= 1 and dim1 * dim2 <= len(array), f"dims {dim1}x{dim2} on {len(array)} elements")
            return g.saved["downsample_2d_mean_flat"](array, factor1, factor2, dim1, dim2)

        def fold(inarray, fold_ar, count_ar, delays, maxdelay, tsamp, period, accel, total_nsamps, nsamps, nchans, nbins, nints, nsubs, index):
            d = np.asarray(delays)
            need("fold", len(d) >= nchans and (nchans == 0 or (d[:nchans].min() >= 0 and d[:nchans].max() <= maxdelay)), "delays outside [0, maxdelay]")
            need("fold", nchans * nsamps <= len(inarray), "reads past the block")
            need("fold", len(fold_ar) >= nbins * nints * nsubs, "cube smaller than nbins*nints*nsubs")  # count_ar's layout is the kernel's own business
            n = nsamps - maxdelay
            need("fold", n <= 0 or (index >= 0 and index + n <= total_nsamps),
                 f"samples [{index},{index + n}) of a fold declared {total_nsamps} samples long: sub-integration index would reach {int((index + n - 1) // (total_nsamps / nints)) if n > 0 else 0} of {nints}")
            return g.saved["fold"](inarray, fold_ar, count_ar, delays, maxdelay, tsamp, period, accel, total_nsamps, nsamps, nchans, nbins, nints, nsubs, index)

        import inspect

        guards = {n: f for n, f in list(locals().items()) if callable(f) and hasattr(K, n) and n not in ("need",)}
        for name, fn in guards.items():
            orig = getattr(K, name)
            self.saved[name] = orig
            nargs = len(inspect.signature(fn).parameters)

            def wrapper(*a, _fn=fn, _orig=orig, _n=nargs, **kw):
                # the guard understands the kernel's present signature only; any other call shape
                # (a refactored kernel) is passed through untouched rather than mis-judged
                if kw or len(a) != _n:
                    g.ctx.observations["kernel-guard-skipped-unknown-signature"] += 1
                    return _orig(*a, **kw)
                return _fn(*a)

            setattr(K, name, wrapper)
        return self

    def __exit__(self, *exc):
        import sigpyproc.core.kernels as K

        for name, fn in self.saved.items():
            setattr(K, name, fn)
        return False
