"""Streaming file-to-file transforms of sigpyproc.base.Filterbank: how to call each one, how to
generate its arguments inside its documented domain, and its whole-array definition.

Used by C07 (output == definition), C20 (crash / truncation enumeration of the same calls) and
C16 (masking).  The definitions are plain numpy on the (nsamps, nchans) sample array the harness
itself wrote; they never call the library except for the per-channel dispersion delays (the
statement of C06/C07 takes the delays the library reports as given; C09 owns their law).
"""
from __future__ import annotations

import os

import numpy as np

from .core import Rejected, nint

NAMES = ["invert_freq", "apply_channel_mask", "extract_samps", "extract_chans", "extract_bands",
         "downsample", "subband", "remove_zerodm"]

# band used when a transform needs non-trivial dispersion delays (descending => delays >= 0)
DISP_BAND = {"fch1": 400.0, "foff": -10.0, "tsamp": 0.001}


def divisors(n):
    return [k for k in range(1, n + 1) if n % k == 0]


def ref_delays(nchans, dm, fch1, foff, tsamp):
    """Harness-side replica of the library's delay formula, used ONLY to pick in-domain DMs."""
    freqs = (np.arange(nchans, dtype=np.float32) * np.float32(foff) + np.float32(fch1)).astype(np.float32)
    d = np.float32(dm) * np.float32(4.148808e3) * ((freqs ** -2) - (np.float32(fch1) ** -2))
    return np.round(d / tsamp).astype(np.int32)


def pick_dm(rng, nchans, nsamps_sel, band=DISP_BAND):
    """A DM whose max delay lies in [0, nsamps_sel-1] (biased to interesting values)."""
    if nsamps_sel <= 1 or nchans == 1 or rng.random() < 0.15:
        return 0.0
    target = rng.choice([1, 2, nsamps_sel // 2, nsamps_sel - 1, rng.randint(0, nsamps_sel - 1), rng.randint(0, max(1, nsamps_sel // 3))])
    target = max(0, min(target, nsamps_sel - 1))
    unit = ref_delays(nchans, 1.0, band["fch1"], band["foff"], band["tsamp"]).max()
    if unit <= 0:
        return 0.0
    dm = round(target / float(unit), 4)
    for _ in range(20):
        if int(ref_delays(nchans, dm, band["fch1"], band["foff"], band["tsamp"]).max()) < nsamps_sel:
            return dm
        dm = round(dm * 0.9, 4)
    return 0.0


# ------------------------------------------------------------------ argument generators
def gen_params(name, rng, spec, nsamps_sel) -> dict:
    nchans, nbits = spec["nchans"], spec["nbits"]
    if name == "invert_freq" or name == "remove_zerodm":
        return {}
    if name == "extract_samps":
        return {}
    if name == "apply_channel_mask":
        mask = [rng.random() < 0.4 for _ in range(nchans)]
        if rng.random() < 0.2:
            mask = [False] * nchans
        if rng.random() < 0.2:
            mask[0] = True
            mask[-1] = True
        top = (1 << nbits) - 1 if nbits < 32 else 1000
        return {"mask": mask, "mask_value": rng.choice([0, 1, top, rng.randint(0, top)] + ([-1.5, 2.75, -100.0] if nbits == 32 else []))}
    if name == "extract_chans":
        k = rng.randint(1, nchans)
        chans = rng.sample(range(nchans), k)
        if rng.random() < 0.5:
            chans.sort()
        return {"chans": chans, "batch_size": rng.choice([1, 2, 3, 200])}
    if name == "extract_bands":
        opts = []
        for cps in range(2, nchans + 1):
            if (cps * nbits) % 8:
                continue
            for nb in range(1, nchans // cps + 1):
                for cs in range(0, nchans - nb * cps + 1):
                    opts.append((cs, nb * cps, cps))
        if not opts:
            raise Rejected("no band layout with whole-byte samples")
        cs, nch, cps = rng.choice(opts)
        return {"chanstart": cs, "nchans": nch, "chanpersub": cps if rng.random() < 0.8 or cps != nch else None,
                "batch_size": rng.choice([1, 2, 3, 200])}
    if name == "downsample":
        ffs = [f for f in divisors(nchans) if ((nchans // f) * nbits) % 8 == 0]
        ff = rng.choice(ffs)
        tf = rng.choice([1, 2, 2, 3, 4, 7, 49, rng.randint(1, max(1, nsamps_sel))])
        tf = max(1, min(tf, nsamps_sel))
        return {"tfactor": tf, "ffactor": ff}
    if name == "subband":
        band = {k: spec.get(k, DISP_BAND[k]) for k in DISP_BAND}
        return {"dm": pick_dm(rng, nchans, nsamps_sel, band=band), "nsub": rng.choice(divisors(nchans))}
    raise AssertionError(name)


def data_mode(name, nbits) -> str:
    """bit-exact transforms get full-range data (incl. NaN payloads at 32 bit); arithmetic ones
    get small integers so that float32 sums are exact."""
    return "bits" if name in ("invert_freq", "apply_channel_mask", "extract_samps", "extract_chans", "extract_bands") else "small"


def data_mode_rng(name, nbits, rng) -> str:
    m = data_mode(name, nbits)
    if m == "small" and name != "remove_zerodm" and rng.random() < 0.2:
        return "gappy"  # stretches of exact zeros in all channels (blank blocks)
    return m


def needs_disp_band(name) -> bool:
    return name == "subband"


# ------------------------------------------------------------------ calling the library
def call(name, reader, outdir, params, gulp, start, nsamps, allocator=None) -> list:
    """Invoke the transform; returns the list of output paths it reported."""
    kw = {"gulp": nint(gulp), "start": nint(start), "nsamps": nint(nsamps), "quiet": True}
    if gulp is None:  # the gulp argument left at its default
        del kw["gulp"]
    if allocator is not None:
        kw["allocator"] = allocator
    if name == "invert_freq":
        return [reader.invert_freq(outfile_name=os.path.join(outdir, "out_inv.fil"), **kw)]
    if name == "apply_channel_mask":
        return [reader.apply_channel_mask(np.array(params["mask"]), params["mask_value"],
                                          outfile_name=os.path.join(outdir, "out_mask.fil"), **kw)]
    if name == "extract_samps":
        n = nsamps if nsamps is not None else reader.header.nsamples - start
        kws = {"quiet": True} if gulp is None else {"gulp": nint(gulp), "quiet": True}
        if allocator is not None:
            kws["allocator"] = allocator
        return [reader.extract_samps(nint(start), nint(n), outfile_name=os.path.join(outdir, "out_samps.fil"), **kws)]
    if name == "extract_chans":
        return list(reader.extract_chans(np.array(params["chans"]), outfile_base=os.path.join(outdir, "out"),
                                         batch_size=params["batch_size"], **kw))
    if name == "extract_bands":
        return list(reader.extract_bands(params["chanstart"], params["nchans"], params["chanpersub"],
                                         outfile_base=os.path.join(outdir, "out"), batch_size=params["batch_size"], **kw))
    if name == "downsample":
        return [reader.downsample(params["tfactor"], params["ffactor"], outfile_name=os.path.join(outdir, "out_ds.fil"), **kw)]
    if name == "subband":
        return [reader.subband(params["dm"], params["nsub"], outfile_name=os.path.join(outdir, "out.subbands"), **kw)]
    if name == "remove_zerodm":
        return [reader.remove_zerodm(outfile_name=os.path.join(outdir, "out_zdm.fil"), **kw)]
    raise AssertionError(name)


# ------------------------------------------------------------------ definitions
class Expected:
    """One expected output file."""

    def __init__(self, nchans, nbits, data, cmp="exact", alt=None, label="") -> None:
        self.nchans, self.nbits, self.data, self.cmp, self.alt, self.label = nchans, nbits, data, cmp, alt, label


def dedisp_domain(delays, ns):
    delays = np.asarray(delays)
    if delays.min() < 0 or delays.max() >= max(ns, 1):
        raise Rejected(f"delays outside [0,{ns})")
    return int(delays.max())


def define(name, X, Xfull, spec, params, delays=None) -> list:
    """Whole-array definition of transform `name` on the selected samples X (ns, nchans)."""
    nchans, nbits = spec["nchans"], spec["nbits"]
    ns = X.shape[0]
    if name == "invert_freq":
        return [Expected(nchans, nbits, X[:, ::-1])]
    if name == "apply_channel_mask":
        out = X.copy()
        mv = np.float32(params["mask_value"]).astype(X.dtype)
        out[:, np.array(params["mask"], dtype=bool)] = mv
        return [Expected(nchans, nbits, out)]
    if name == "extract_samps":
        return [Expected(nchans, nbits, X)]
    if name == "extract_chans":
        return [Expected(1, 32, X[:, c : c + 1].astype(np.float32), label=f"chan{c}") for c in params["chans"]]
    if name == "extract_bands":
        cps = params["chanpersub"] or params["nchans"]
        cs = params["chanstart"]
        nb_all = (nchans - cs) // cps
        return [Expected(cps, nbits, X[:, cs + i * cps : cs + (i + 1) * cps], label=f"band{i}") for i in range(nb_all)]
    if name == "downsample":
        tf, ff = params["tfactor"], params["ffactor"]
        no = ns // tf
        m = X[: no * tf].astype(np.float64).reshape(no, tf, nchans // ff, ff).mean(axis=(1, 3))
        return [Expected(nchans // ff, nbits, m, cmp="mean")]
    if name == "subband":
        nsub = params["nsub"]
        md = dedisp_domain(delays, ns)
        no = ns - md
        out = np.zeros((no, nsub), dtype=np.float64)
        per = nchans // nsub
        for c in range(nchans):
            out[:, c // per] += X[delays[c] : delays[c] + no, c].astype(np.float64)
        return [Expected(nsub, 32, out.astype(np.float32))]
    if name == "remove_zerodm":
        outs = []
        for src in (Xfull, X):  # the band-pass of the whole file (what the code uses) or of the selection
            bp = src.astype(np.float64).sum(axis=0).astype(np.float32) / np.float32(src.shape[0])
            bp = bp.astype(np.float64)
            w = bp / bp.sum() if bp.sum() != 0 else np.full(nchans, np.nan)
            z = X.astype(np.float64).sum(axis=1, keepdims=True)
            outs.append(X.astype(np.float64) - z * w[None, :] + bp[None, :])
        return [Expected(nchans, nbits, outs[0], cmp="zerodm", alt=outs[1])]
    raise AssertionError(name)


def in_range_for_zerodm(exp: Expected, nbits) -> bool:
    lo, hi = (0.0, float((1 << nbits) - 1)) if nbits < 32 else (-1e30, 1e30)
    for d in (exp.data, exp.alt):
        if not np.all(np.isfinite(d)) or d.min() < lo or d.max() > hi:
            return False
    return True


def n_outputs_required(name, params, spec) -> int:
    """extract_bands may report more files than nchans/chanpersub (it extends to the top of the
    band); only the first nchans/chanpersub are *required* by the call's arguments."""
    if name == "extract_bands":
        cps = params["chanpersub"] or params["nchans"]
        return params["nchans"] // cps
    return -1
