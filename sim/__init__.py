"""Deterministic simulation harness for FRBs/sigpyproc3 (see /verif/DESIGN.md)."""
