"""Core: seeded rng, run context (event log, probes, fault counters), violations.

A *run* is a pure function of (scenario, code under $VERIF_REPO).  Nothing in this module
reads a clock or a PRNG on the execution path; the PRNG is used by generators only.
"""
from __future__ import annotations

import hashlib
import json
import os
import random
import shutil
import tempfile
from collections import Counter

FORMAT = 1


def rng_for(prop: str, seed: int, run: int) -> random.Random:
    """String seeding is SHA-512 based => independent of PYTHONHASHSEED."""
    return random.Random(f"{prop}/{seed}/{run}")


class SimCrash(BaseException):
    """Simulated process death.  BaseException: `except Exception` cannot swallow it."""


class SimLivelock(BaseException):
    """An operation exceeded its I/O step budget (bounded liveness)."""


class Violation(Exception):
    """The property does not hold on this run.  `cls` is the violation class used by the
    shrinker ("same failure") and by known_findings.json."""

    def __init__(self, cls: str, detail: str = "", info: dict | None = None) -> None:
        super().__init__(f"{cls}: {detail}")
        self.cls = cls
        self.detail = detail
        self.info = info or {}


class Rejected(Exception):
    """Scenario is outside the generator's stated domain (used by shrinking fix-ups)."""


def jdump(obj) -> str:
    return json.dumps(obj, sort_keys=True, separators=(",", ":"), default=_jdefault)


def _jdefault(o):
    import numpy as np

    if isinstance(o, np.integer):
        return int(o)
    if isinstance(o, np.floating):
        return float(o)
    if isinstance(o, np.bool_):
        return bool(o)
    if isinstance(o, np.ndarray):
        return o.tolist()
    if isinstance(o, (set, frozenset)):
        return sorted(o)
    if isinstance(o, bytes):
        return o.hex()
    return repr(o)


_SCRATCH_ROOT = None


def fpath(name) -> str:
    """Path of a file whose io.FileIO .name may be a descriptor number (file opened by descriptor):
    descriptor numbers differ between processes and must never reach the event log."""
    if isinstance(name, int):
        try:
            return os.readlink(f"/proc/self/fd/{name}")
        except OSError:
            return "<fd>"
    return str(name)


ARGFORM = "int"
ARGFORMS = ("int", "int", "int", "int64", "int32", "intp")


def nint(v):
    """An integer argument in the form the scenario chose: the Python int, or the numpy integer scalar a
    caller gets from np.argmax / array arithmetic (ARGFORM is set from sc["argform"] for the run)."""
    if v is None or ARGFORM == "int" or isinstance(v, bool) or not isinstance(v, int):
        return v
    import numpy as np

    if ARGFORM == "int32" and not (-(1 << 31) <= v < (1 << 31)):
        return np.int64(v)  # a caller's 32-bit scalar cannot hold this value: it arrives as a 64-bit one
    return getattr(np, ARGFORM)(v)


def scratch_root() -> str:
    """Per-process scratch directory on tmpfs (the simulated disk lives here)."""
    global _SCRATCH_ROOT
    if _SCRATCH_ROOT is None or not os.path.isdir(_SCRATCH_ROOT):
        base = "/dev/shm" if os.path.isdir("/dev/shm") and os.access("/dev/shm", os.W_OK) else None
        _SCRATCH_ROOT = tempfile.mkdtemp(prefix=f"verif-{os.getpid()}-", dir=base)
    return _SCRATCH_ROOT


def enter_private_cwd() -> None:
    """Worker / replay / warm-up processes work from a directory of their own under the scratch root: library code
    (broken or not) that writes under a relative or default name must never write into /verif."""
    global _HOME_CWD
    d = os.path.join(scratch_root(), "cwd")
    os.makedirs(d, exist_ok=True)
    os.chdir(d)
    _HOME_CWD = d


def cleanup_scratch() -> None:
    global _SCRATCH_ROOT
    try:
        os.chdir("/")
    except OSError:
        pass
    if _SCRATCH_ROOT and os.path.isdir(_SCRATCH_ROOT):
        shutil.rmtree(_SCRATCH_ROOT, ignore_errors=True)
    _SCRATCH_ROOT = None


class Ctx:
    """Per-run context handed to a property's `execute`."""

    def __init__(self, scenario: dict, keep: bool = False) -> None:
        self.sc = scenario
        self.events: list = []
        self.probes: Counter = Counter()
        self.faults: Counter = Counter()  # fault kinds that actually FIRED
        self.io_steps = 0  # simulated I/O calls ("simulated time")
        self.sched_steps = 0  # scheduler steps (C19)
        self.sig: list = []  # coverage signature parts
        self.observations: Counter = Counter()  # non-verdict notes
        self.artifacts: dict = {}  # e.g. the recorded thread schedule (C19)
        self.root = tempfile.mkdtemp(prefix="run-", dir=scratch_root())
        self._keep = keep

    # -- logging: never reads clocks / PRNG; paths logged relative to root
    def log(self, *ev) -> None:
        self.events.append(ev)

    def rel(self, path) -> str:
        p = fpath(path)
        if p.startswith(self.root):
            return p[len(self.root) + 1 :]
        return os.path.basename(p)

    def probe(self, name: str, n: int = 1) -> None:
        self.probes[name] += n

    def fired(self, kind: str) -> None:
        self.faults[kind] += 1

    def digest(self) -> str:
        h = hashlib.sha256()
        for ev in self.events:
            h.update(jdump(ev).encode())
            h.update(b"\n")
        return h.hexdigest()

    def signature(self) -> str:
        return hashlib.sha1(jdump(sorted(set(map(str, self.sig)))).encode()).hexdigest()[:16]

    def close(self) -> None:
        if not self._keep:
            shutil.rmtree(self.root, ignore_errors=True)


class Outcome:
    """Summary of one executed run (JSON-serialisable via .to_dict())."""

    __slots__ = (
        "violation",
        "detail",
        "digest",
        "signature",
        "probes",
        "faults",
        "io_steps",
        "sched_steps",
        "nontrivial",
        "observations",
        "error",
        "info",
        "artifacts",
    )

    def __init__(self) -> None:
        self.violation = None
        self.detail = ""
        self.digest = ""
        self.signature = ""
        self.probes = {}
        self.faults = {}
        self.io_steps = 0
        self.sched_steps = 0
        self.nontrivial = False
        self.observations = {}
        self.error = None
        self.info = {}
        self.artifacts = {}

    def to_dict(self) -> dict:
        return {k: getattr(self, k) for k in self.__slots__}


WALL_CLASS = "no-result-within-the-wall-clock-bound"


class SimWallLivelock(BaseException):
    """Raised by the wall-clock bound; deliberately not a SimLivelock (property code does not catch it)."""


def _wall_bound(mod) -> float:
    """Bounded liveness for loops that do no I/O (which the I/O step budget cannot see): a run that has not
    produced its result after this many seconds of wall time - thousands of times its normal duration - is
    interrupted.  The only place where a real clock can influence a verdict; such a verdict carries no event
    digest.  (A loop inside a compiled kernel cannot be interrupted: the driver's kill remains.)"""
    return float(os.environ.get("VERIF_RUN_WALL_S") or getattr(mod, "RUN_WALL_S", 240))


def run_scenario(mod, sc: dict, keep: bool = False) -> Outcome:
    """Execute one scenario with property module `mod`.  Returns an Outcome; a harness
    error (anything that is not a Violation) is recorded in .error, never as a verdict."""
    import traceback

    global ARGFORM
    ctx = Ctx(sc, keep=keep)
    out = Outcome()
    ARGFORM = sc.get("argform") or "int"
    if ARGFORM != "int":
        ctx.probe("integer-arguments-as-numpy-scalars")
    knobs_restore = lower_tuning_constants(sc.get("knobs"), ctx)
    _set_numba_threads(sc.get("numba_threads") or 1, ctx)
    import signal
    import threading

    armed = False
    bound = _wall_bound(mod)
    if bound > 0 and threading.current_thread() is threading.main_thread():
        def _on_alarm(signum, frame):
            raise SimWallLivelock(f"no result after {bound:.0f} s of wall time")

        old_handler = signal.signal(signal.SIGALRM, _on_alarm)
        signal.setitimer(signal.ITIMER_REAL, bound)
        armed = True
    try:
        try:
            if getattr(mod, "GUARD_KERNELS", False):
                from .kguard import KernelGuard

                with KernelGuard(mod.ID, ctx):
                    mod.execute(sc, ctx)
            else:
                mod.execute(sc, ctx)
        except Violation as v:
            out.violation = v.cls
            out.detail = v.detail[:2000]
            out.info = json.loads(jdump(v.info))
            ctx.log("VIOLATION", v.cls)
        except Rejected as r:
            # outside the generator's stated domain: counted, neither verdict nor error
            ctx.observations["rejected-out-of-domain"] += 1
            ctx.log("REJECTED", str(r)[:80])
            ctx.probes.clear()
        except SimWallLivelock as e:
            out.violation = f"{mod.ID}/livelock/{WALL_CLASS}"
            out.detail = str(e)
            out.info = {"api": "livelock", "wall": True}
            ctx.log("VIOLATION", out.violation)
        except SimLivelock as e:
            # the I/O step budget ran out in a call the property module did not wrap itself: bounded liveness
            # all the same (deterministic: the budget counts simulated I/O calls, not time)
            out.violation = f"{mod.ID}/livelock/io-step-budget-exceeded"
            out.detail = str(e)
            out.info = {"api": "livelock"}
            ctx.log("VIOLATION", out.violation)
        except SimCrash as e:
            # a simulated crash that escaped the property's own handling
            out.error = f"escaped {type(e).__name__}: {e}\n{traceback.format_exc()}"
        except Exception as e:  # noqa: BLE001
            # An exception nobody classified.  If it was raised INSIDE the library (innermost frames in the tree
            # under test) on a scenario that is in-domain by construction, the call did not deliver what the
            # property promises for every input: a violation, replayable like any other.  Raised in harness code
            # (or a simulated I/O error that escaped): a harness error, reported apart.
            repo = os.path.realpath(os.environ.get("VERIF_REPO", "/repo")) + os.sep
            frames = traceback.extract_tb(e.__traceback__)
            inner = frames[-1].filename if frames else ""
            lib = [f for f in frames if os.path.realpath(f.filename).startswith(repo)]
            simulated = isinstance(e, OSError) and "simulated" in str(e)
            if lib and not simulated and (os.path.realpath(inner).startswith(repo) or "site-packages" in inner or inner.startswith("<")):
                where = f"{os.path.basename(lib[-1].filename)}:{lib[-1].name}"
                out.violation = f"{mod.ID}/library-raised/{where}/{type(e).__name__}"
                out.detail = repr(e)[:500]
                out.info = {"api": where, "unclassified": True, "traceback": [f"{os.path.basename(f.filename)}:{f.lineno}:{f.name}" for f in frames[-6:]]}
                ctx.log("VIOLATION", out.violation)
            else:
                out.error = f"{type(e).__name__}: {e}\n{traceback.format_exc()}"
        if armed:
            signal.setitimer(signal.ITIMER_REAL, 0)
        out.digest = ctx.digest()
        out.signature = ctx.signature()
        out.probes = dict(ctx.probes)
        out.faults = dict(ctx.faults)
        out.io_steps = ctx.io_steps
        out.sched_steps = ctx.sched_steps
        out.observations = dict(ctx.observations)
        out.artifacts = ctx.artifacts
        out.nontrivial = bool(getattr(mod, "nontrivial", lambda s, c: True)(sc, ctx))
    finally:
        if armed:
            signal.setitimer(signal.ITIMER_REAL, 0)
            signal.signal(signal.SIGALRM, old_handler)
        for modobj, name, value in knobs_restore:
            setattr(modobj, name, value)
        _set_numba_threads(1, None)
        try:
            os.chdir(_HOME_CWD)
        except OSError:
            pass
        ctx.close()
    return out


def _set_numba_threads(k, ctx) -> None:
    """Caller-level code may consult the number of numba threads (to size a partition, to pick a kernel).  The streaming
    properties run on 1 thread; a scenario may ask for more where the worker's NUMBA_NUM_THREADS allows it (C16, C07: 4).
    Race freedom of the kernels themselves is C19's business."""
    if os.environ.get("VERIF_PROP_IS_C19"):
        return
    try:
        import numba

        k = max(1, min(int(k), int(numba.config.NUMBA_NUM_THREADS)))
        if numba.get_num_threads() != k:
            numba.set_num_threads(k)
        if ctx is not None and k > 1:
            ctx.probe("numba-threads>1")
    except Exception:  # noqa: BLE001,S110 - numba not imported yet / not available: nothing to set
        pass


def lower_tuning_constants(value, ctx) -> list:
    """Size thresholds far above simulated sizes (a piece-wise path above 2^24 samples, a cap at 128 MiB per block, a
    scratch limit) cannot be reached by making scenarios that large; the simulator moves the threshold instead.  A
    tuning constant is recognised by convention: a module-level ALL-CAPS name of a pure-Python sigpyproc module bound to
    a plain int >= 4096, or a module-level name / class attribute of any case bound to a plain int >= 65536 (physical
    constants are floats; format limits such as 80-character strings are far smaller).
    For the run, each is set to `value` (a few hundred: above every format limit, below the scenario's block sizes).
    The pinned tree has no such constant, so this changes nothing there; the constants lowered are logged and named in
    the class of a violation that needs them.  Returns what to restore."""
    if not value:
        return []
    import sys as _sys

    import types as _types

    restore = []
    mods = [(name, modobj) for name, modobj in sorted(_sys.modules.items())
            if (name == "sigpyproc" or name.startswith("sigpyproc.")) and not name.endswith(".kernels") and modobj is not None]
    originals = set()
    for name, modobj in mods:
        for k, v in sorted(vars(modobj).items()):
            if type(v) is int and not k.startswith("__") and ((k.isupper() and v >= 4096) or v >= 65536):
                restore.append((modobj, k, v))
                originals.add(v)
                setattr(modobj, k, int(value))
                ctx.probe("tuning-constant-lowered")
                ctx.log("knob", name, k, int(value))
            elif isinstance(v, type) and getattr(v, "__module__", None) == name:
                # ... and the same kept as a class attribute (`direct_write_min = 64 << 20`), whatever its case
                for k2, v2 in sorted(vars(v).items(), key=lambda kv: kv[0]):
                    if type(v2) is int and not k2.startswith("__") and v2 >= 65536:
                        try:
                            setattr(v, k2, int(value))
                        except (AttributeError, TypeError):
                            continue
                        restore.append((v, k2, v2))
                        originals.add(v2)
                        ctx.probe("tuning-constant-lowered")
                        ctx.log("knob", name, f"{v.__name__}.{k2}", int(value))
    if not originals:
        return restore
    # the same constants where they were bound as default argument values (`def f(x, max_size=MAX_WRITE_SAMPLES)`)
    def functions_of(modname, modobj):
        for _k, v in sorted(vars(modobj).items()):
            if isinstance(v, _types.FunctionType) and v.__module__ == modname:
                yield v
            elif isinstance(v, type) and v.__module__ == modname:
                for _k2, v2 in sorted(vars(v).items(), key=lambda kv: kv[0]):
                    f = getattr(v2, "__func__", None) or getattr(v2, "fget", None) or v2
                    if isinstance(f, _types.FunctionType):
                        yield f

    for name, modobj in mods:
        for f in functions_of(name, modobj):
            d = f.__defaults__
            if d and any(type(x) is int and x in originals for x in d):
                restore.append((f, "__defaults__", d))
                f.__defaults__ = tuple(int(value) if (type(x) is int and x in originals) else x for x in d)
                ctx.log("knob-default", name, f.__qualname__)
            kd = f.__kwdefaults__
            if kd and any(type(x) is int and x in originals for x in kd.values()):
                restore.append((f, "__kwdefaults__", dict(kd)))
                f.__kwdefaults__ = {k: (int(value) if (type(x) is int and x in originals) else x) for k, x in kd.items()}
                ctx.log("knob-default", name, f.__qualname__)
    return restore


_HOME_CWD = os.getcwd()


def _open_relative_then_chdir(prop, paths, kw):
    """The files are given by RELATIVE name from inside their directory; afterwards the process moves
    to another directory that holds same-named files with other content (per-beam directories are laid
    out like that).  The reader must keep reading the files it was opened on."""
    from sigpyproc.readers import FilReader

    d = os.path.dirname(paths[0])
    decoy = os.path.join(d, "elsewhere")
    os.makedirs(decoy, exist_ok=True)
    for p in paths:
        if os.path.getsize(p) > 1 << 16:  # same header, complemented data bytes (small files only)
            continue
        with open(p, "rb") as fp:
            raw = fp.read()
        if len(raw) <= 1 << 16:
            from . import filgen

            try:
                _f, hl = filgen.parse_header(raw)
            except filgen.HeaderError:
                hl = len(raw)
            with open(os.path.join(decoy, os.path.basename(p)), "wb") as fp:
                fp.write(raw[:hl] + bytes(255 - b for b in raw[hl:]))
    os.chdir(d)
    try:
        r = FilReader([os.path.basename(p) for p in paths], **kw)
    except (SimCrash, SimLivelock):
        raise
    except Exception as e:  # noqa: BLE001
        raise Violation(f"{prop}/open/reader-refused-a-valid-file-set", repr(e)[:300],
                        {"api": "FilReader", "files": [os.path.basename(p) for p in paths], "relative": True}) from None
    finally:
        os.chdir(decoy if os.path.isdir(decoy) else _HOME_CWD)
    return r


def _earlier_recording_at_the_same_paths(prop, paths) -> None:
    """State left in the PROCESS by an earlier observation that lived at the same paths: in a fifth of the (small) file
    sets the paths first hold another recording of exactly the same byte size whose header is 4 bytes longer (a longer
    `rawdatafile`) and whose data differ; it is opened, read and dropped; then the real files are put back.  Anything the
    library remembers about a path (parsed headers, lengths, offsets) is stale for the reader opened next."""
    from . import filgen

    sizes = [os.path.getsize(p) for p in paths]
    if max(sizes) > (1 << 16) or (sum(sizes) + len(paths)) % 5 != 3:
        return
    real, decoys = [], []
    for p in paths:
        with open(p, "rb") as fp:
            raw = fp.read()
        try:
            fields, hl = filgen.parse_header(raw)
        except filgen.HeaderError:
            return
        if len(raw) - hl < 5 or "rawdatafile" not in fields:
            return
        f2 = dict(fields)
        f2["rawdatafile"] = fields["rawdatafile"] + "yyyy"
        hdr2 = filgen.encode_header(f2)
        if len(hdr2) != hl + 4:
            return
        real.append(raw)
        decoys.append(hdr2 + bytes(255 - b for b in raw[hl : len(raw) - 4]))
    try:
        for p, d in zip(paths, decoys):
            with open(p, "wb") as fp:
                fp.write(d)
        try:
            from sigpyproc.readers import FilReader

            r0 = FilReader(list(paths), check_contiguity=False)
            r0.read_block(0, 1)
            r0._file.close()
            del r0
        except (SimCrash, SimLivelock):
            raise
        except Exception:  # noqa: BLE001,S110 - context, not the call under test
            pass
    finally:
        for p, raw in zip(paths, real):
            with open(p, "wb") as fp:
                fp.write(raw)


def open_reader(prop, paths, **kw):
    """Open the harness-written (valid, contiguous unless stated) file set with the library's reader.
    A refusal here is the library failing on a valid input, i.e. a violation - not a harness error."""
    from pathlib import Path

    from sigpyproc.readers import FilReader

    _earlier_recording_at_the_same_paths(prop, paths)
    # the documented argument forms: str | Path | Sequence[str | Path]; which one is used is a pure
    # function of the file set (so a scenario always uses the same form)
    variant = (len(paths) * 7 + sum(os.path.getsize(p) for p in paths)) % 7
    if variant >= 5 and kw.pop("allow_chdir", True) and len({os.path.dirname(p) for p in paths}) == 1:
        return _open_relative_then_chdir(prop, paths, kw)
    kw.pop("allow_chdir", None)
    arg = list(paths)
    if variant == 0 and sum(os.path.getsize(p) for p in paths) % 2 == 0:
        # archive layouts: the observation is reached through symbolic links with other names, kept in
        # another directory (the names of the links say nothing about the order or the targets)
        d = os.path.join(os.path.dirname(paths[0]), "links with spaces")
        os.makedirs(d, exist_ok=True)
        arg = []
        for i, p in enumerate(paths):
            ln = os.path.join(d, f"beam.{len(paths) - i:02d}.v1.fil")
            if os.path.lexists(ln):
                os.unlink(ln)
            os.symlink(p, ln)
            arg.append(ln)
    if variant == 1:
        arg = [Path(p) for p in paths]
    elif variant == 2 and len(paths) == 1:
        arg = paths[0]
    elif variant == 3 and len(paths) == 1:
        arg = Path(paths[0])
    elif variant == 4:
        arg = tuple(paths)
    try:
        return FilReader(arg, **kw)
    except (SimCrash, SimLivelock):
        raise
    except Exception as e:  # noqa: BLE001
        raise Violation(f"{prop}/open/reader-refused-a-valid-file-set", repr(e)[:300],
                        {"api": "FilReader", "files": [os.path.basename(p) for p in paths]}) from None
