"""Setup-time self-test: warm every property's kernels, then run a handful of seeds of each
twice in fresh interpreters under different PYTHONHASHSEED and compare event digests."""
from __future__ import annotations

import json
import os
import subprocess
import sys
import tempfile

from .driver import PY, VERIF, child_env


def props() -> list:
    with open(os.path.join(VERIF, "MANIFEST.json")) as fp:
        return [c["property_id"] for c in json.load(fp)["checks"]]


def main() -> int:
    tmp = tempfile.mkdtemp(prefix="verif-self-")
    rc = 0
    for prop in props():
        w = subprocess.run([PY, "-m", "sim.warm", prop], cwd=VERIF, env=child_env(prop), capture_output=True, text=True)
        if w.returncode:
            print(f"selftest: warm {prop} failed\n{w.stdout[-2000:]}{w.stderr[-2000:]}")
            return 2
        digs = []
        for hs in ("0", "4321"):
            out = os.path.join(tmp, f"{prop}-{hs}.json")
            env = child_env(prop, hs)
            env["VERIF_DET_N"] = "12"
            p = subprocess.run([PY, "-m", "sim.worker", prop, "0", "quick", "0", "1", "12", "0", out, "det"],
                               cwd=VERIF, env=env, capture_output=True, text=True)
            if p.returncode:
                print(f"selftest: {prop} worker failed\n{p.stdout[-2000:]}{p.stderr[-2000:]}")
                return 2
            with open(out) as fp:
                digs.append(json.load(fp)["first_digests"])
        if digs[0] != digs[1]:
            print(f"selftest: {prop} NOT deterministic across PYTHONHASHSEED")
            rc = 2
        else:
            print(f"selftest: {prop} deterministic over {len(digs[0])} seeds x 2 interpreters")
    return rc


if __name__ == "__main__":
    sys.exit(main())
