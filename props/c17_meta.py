"""C17 static metadata."""
LEVEL = "exploration"
QUICK_RUNS = 8000
THOROUGH_BUDGET_S = 600
RULE = (
    "seeded histories of <=12 update_dm / update_period calls on a FoldedData cube (shape <= 6x6x32, all values distinct so "
    "every rotation is attributable; held C-contiguous, as a transposed view, in Fortran order or as a slice of a larger array, and always compared with a C-contiguous twin given the same history) over a small alphabet of targets (folding value, +-delta, repeat-last, return-to-fold) "
    "and random targets; after every call: reported dm/period == last set, every profile is a rotation of the original, a "
    "repeated call changes nothing, single-parameter histories equal a FRESH cube given the final value in one call, and "
    "returning all parameters to the folding values restores the cube bit-for-bit. Pure in-memory state machine: no fault "
    "applies and none is injected. Non-trivial = history of >= 2 calls with at least one non-zero rotation; distinct = "
    "distinct event digests among those."
)
PROBES = ["repeat-last", "return-to-fold", "history>=4", "mixed-dm-period", "dm-only", "period-only", "nonzero-rotation", "one-step-compared", "non-contiguous-cube", "implied-shift>=1.5-bins-checked", "header-dm-differs-from-folding-dm"]
COMPONENTS = {
    "real": ["sigpyproc.foldedcube.FoldedData.update_dm/update_period/_get_dmdelays/_get_pdelays", "params.compute_dmdelays"],
    "simulated": ["the call history (targets, order, repeats)"],
    "stubbed": [],
}
ASSUMPTIONS = [
    "the one-step reference is the library's own single update on a fresh cube (refinement of a history against one step); in addition single-parameter histories are compared with a tolerant absolute model of the implied shift (real-valued drift from the dispersion law / the linear period drift; the observed rotation must be within 1 bin, so any rounding convention passes)",
    "for mixed DM+period histories the 'equals a fresh cube' clause is not asserted (the DM shift in bins depends on the current period); rotation-only, idempotence, reported values and return-to-fold are",
]

# dimensions added in seeded rounds 6 and 7
PROBES = list(PROBES) + ["derived-cube-made-in-mid-history", "derived-cube-retuned", "read-only-cube-refused"]

# dimensions added in seeded round 9
PROBES = list(PROBES) + ["implied-shift-beyond-2^20-bins"]
RULE = RULE + (" Round 9: 12% of histories re-tune an hour-long fold of a 1-2.5 ms period to harmonics (2P, P/2, 3P/2, 3P): drifts of tens of millions of bins (beyond 2^24); "
               "the absolute model is skipped beyond 2^20 bins (float32 drift formula), history independence and return-to-fold remain.")

# dimensions added in seeded round 10
PROBES = list(PROBES) + ["cube-of-millions-of-samples"]
RULE = RULE + " Round 10: 0.4% of histories (1% thorough) use a cube of 2-2.4 million samples (64x64x512, 128x128x128, 40x60x1024, 300x8x1024) whose first update rotates, judged by the absolute drift model."
