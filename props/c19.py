"""C19 - parallel kernels give the same answer for every thread count and schedule."""
from __future__ import annotations

import copy
import hashlib
import os
import zlib

import numpy as np

from sim import vthreads as V
from sim.core import Rejected, Violation

from .c19_meta import EXTRA, KERNELS

ID = "C19"
SHRINK_LISTS = (("schedule", "passes"),)
NONFINITE_OK = ("extract_tim", "extract_bpass", "dedisperse", "subband", "invert_freq", "mask_channels")  # sums / copies: NaN in, NaN out
SHRINK_MIN = {"nchans": 1, "nsamps": 1, "threads": 1, "f": 1, "f1": 1, "f2": 1, "m1": 1, "m2": 1, "nsub": 1, "n": 1, "repeats": 1}


def warm() -> None:
    import numba

    import sigpyproc.core.kernels as K

    for k in KERNELS + EXTRA:
        for dt in ("u1", "f4"):
            sc = {"mode": "compiled", "kernel": k, "shape": gen_shape(k, None, small=True), "dseed": 1, "dtype": dt,
                  "threads": [1], "chunksize": 0, "repeats": 1}
            try:
                args, outs, _ref = make_args(sc)
                getattr(K, k)(*args)
            except (Rejected, AttributeError, TypeError):
                pass
    numba.set_num_threads(1)


# ------------------------------------------------------------------ shapes and arguments
def gen_shape(k, rng, small=False):
    if k in EXTRA:
        r = rng.random() if rng is not None else 0.5
        if k == "fold":
            return {"nchans": 1 + int(r * 4), "nsamps": 8 + int(r * 40), "nbins": 1 + int(r * 5), "nints": 1 + int(r * 3), "maxdelay": int(r * 3)}
        return {"n": 1 + int(r * 40)}
    if small or rng is None:
        nch, ns = 4, 6
        r01 = 0.5
    else:
        r = rng.random()
        if r < 0.15:
            nch, ns = rng.choice([(1, 1), (1, rng.randint(1, 6)), (rng.randint(1, 5), 1)])
        else:
            nch, ns = rng.randint(1, 8), rng.randint(1, 12)
        r01 = rng.random()
    sh = {"nchans": nch, "nsamps": ns}
    if k in ("dedisperse", "subband"):
        sh["maxdelay"] = 0 if ns <= 1 else int(r01 * (ns - 1))
        if k == "subband":
            divs = [d for d in range(1, nch + 1) if nch % d == 0]
            sh["nsub"] = divs[int(r01 * len(divs)) % len(divs)]
    if k in ("extract_tim", "dedisperse"):
        sh["index"] = int(r01 * 3)
    if k == "downsample_1d_mean_parallel":
        f = [1, 2, 4][int(r01 * 3) % 3]
        sh = {"f": f, "m1": 1 + int(r01 * 7)}
    if k == "downsample_2d_mean_parallel":
        sh = {"f1": [1, 2][int(r01 * 2) % 2], "f2": [1, 2, 4][int(r01 * 3) % 3], "m1": 1 + int(r01 * 5), "m2": 1 + int(r01 * 3)}
    return sh


def big_shape(k, rng):
    if k == "fold":
        return {"nchans": rng.choice([4, 16]), "nsamps": rng.choice([500, 3000]), "nbins": rng.choice([4, 16]), "nints": rng.choice([1, 4]), "maxdelay": rng.randint(0, 20)}
    if k in EXTRA:
        return {"n": rng.choice([511, 4096, 20000])}
    nch, ns = rng.choice([16, 32, 64]), rng.choice([64, 257, 1024, 4096])
    sh = {"nchans": nch, "nsamps": ns}
    if k in ("dedisperse", "subband"):
        sh["maxdelay"] = rng.randint(0, ns // 4)
        if k == "subband":
            sh["nsub"] = rng.choice([d for d in range(1, nch + 1) if nch % d == 0])
    if k in ("extract_tim", "dedisperse"):
        sh["index"] = rng.randint(0, 3)
    if k == "downsample_1d_mean_parallel":
        sh = {"f": rng.choice([1, 2, 4, 8]), "m1": rng.randint(1, 2000)}
    if k == "downsample_2d_mean_parallel":
        sh = {"f1": rng.choice([1, 2, 4]), "f2": rng.choice([1, 2, 4]), "m1": rng.randint(1, 300), "m2": rng.randint(1, 16)}
    return sh


def make_args(sc):
    """(args, output selectors, numpy reference outputs)."""
    import sigpyproc.core.kernels as K

    k, sh = sc["kernel"], sc["shape"]
    r = np.random.default_rng(int(sc["dseed"]))
    dt = np.uint8 if sc.get("dtype", "u1") == "u1" else np.float32
    if k.startswith("unpack") or k.startswith("pack"):
        nb = int(k[6]) if k.startswith("unpack") else int(k[4])
        per = 8 // nb
        n = max(1, sh["n"])
        if k.startswith("unpack"):
            a = r.integers(0, 256, size=n).astype(np.uint8)
            return [a, np.zeros(n * per, np.uint8)], [1], [None]
        a = r.integers(0, 1 << nb, size=n * per).astype(np.uint8)
        return [a, np.zeros(n, np.uint8)], [1], [None]
    if k == "fold":
        nch, ns, nbins, nints = sh["nchans"], sh["nsamps"], sh["nbins"], sh["nints"]
        md = min(sh.get("maxdelay", 0), ns - 1)
        if min(nch, ns, nbins, nints) < 1:
            raise Rejected("shape")
        x = r.integers(0, 16, size=ns * nch).astype(dt)
        d = r.integers(0, md + 1, size=nch).astype(np.int32)
        cube = nbins * nints * 1
        tsamp, period = float(np.float32(0.001)), float(np.float32(0.0073))
        return [x, np.zeros(cube, np.float32), np.zeros(cube, np.int32), d, md, tsamp, period, 0.0, ns, ns, nch, nbins, nints, 1, 0], [1, 2], [None, None]
    if k.startswith("downsample_1d"):
        f, n = sh["f"], sh["f"] * sh["m1"]
        if f < 1 or n < 1:
            raise Rejected("shape")
        a = r.integers(0, 16, size=n).astype(np.float32)
        if sc.get("nonfinite"):
            for _ in range(int(r.integers(1, 4))):
                a0 = int(r.integers(0, n))
                a[a0 : a0 + int(r.integers(1, max(2, n // 2)))] = r.choice([np.nan, np.nan, np.inf, -np.inf])
        with np.errstate(invalid="ignore"):
            ref = a.reshape(-1, f).astype(np.float64).mean(1).astype(np.float32)
        return [a, f], ["ret"], [ref]
    if k.startswith("downsample_2d"):
        f1, f2, d1, d2 = sh["f1"], sh["f2"], sh["f1"] * sh["m1"], sh["f2"] * sh["m2"]
        if min(f1, f2, d1, d2) < 1:
            raise Rejected("shape")
        a = r.integers(0, 16, size=d1 * d2).astype(np.float32)
        ref = a.reshape(d1 // f1, f1, d2 // f2, f2).astype(np.float64).mean(axis=(1, 3)).astype(np.float32).ravel()
        return [a, f1, f2, d1, d2], ["ret"], [ref]
    nch, ns = sh["nchans"], sh["nsamps"]
    if nch < 1 or ns < 1:
        raise Rejected("shape")
    top = 16
    if k == "remove_zerodm" and dt == np.uint8 and nch > 120:
        dt = np.float32  # a uint8 row this wide cannot keep its sum below 256 (see below): float data instead
    if k == "remove_zerodm" and dt == np.uint8:
        # the kernel's Python definition sums a row in the input dtype when interpreted: keep
        # the row sum below 256 so that its arithmetic is exact (the property's proviso)
        top = max(2, min(16, 255 // nch + 1))
    x = r.integers(0, top, size=ns * nch).astype(dt)
    if sc.get("nonfinite") and dt == np.float32 and k in NONFINITE_OK:
        # blanked stretches in float data (NaN, sometimes +-inf), some of them longer than a decimation bin / a chunk
        for _ in range(int(r.integers(1, 4))):
            a0 = int(r.integers(0, x.size))
            x[a0 : a0 + int(r.integers(1, max(2, x.size // 2)))] = r.choice([np.nan, np.nan, np.inf, -np.inf])
    X = x.reshape(ns, nch).astype(np.float64)
    if k == "extract_tim":
        idx = sh.get("index", 0)
        out = np.zeros(ns + idx + 1, np.float32)
        ref = out.copy()
        ref[idx : idx + ns] = X.sum(1)
        return [x, out, nch, ns, idx], [1], [ref]
    if k == "extract_bpass":
        out = r.integers(0, 4, size=nch).astype(np.float32)
        return [x, out, nch, ns], [1], [(out.astype(np.float64) + X.sum(0)).astype(np.float32)]
    if k == "mask_channels":
        m = r.integers(0, 2, size=nch).astype(bool)
        if int(sc["dseed"]) % 3 == 0:  # a single flagged channel (fewer flagged channels than threads)
            m[:] = False
            m[int(r.integers(0, nch))] = True
        ref = x.reshape(ns, nch).copy()
        ref[:, m] = 3
        slack = int(sc.get("slack") or 0)
        if slack:
            # the kernel is told nsamps; the buffer it is handed is LONGER (a pre-allocated / ring buffer partly filled):
            # what lies beyond nsamps spectra is somebody else's live data and must stay as it is
            tail = r.integers(4, 16, size=slack * nch).astype(dt)
            return [np.concatenate([x, tail]), m, dt(3), nch, ns], [0], [np.concatenate([ref.ravel(), tail])]
        return [x, m, dt(3), nch, ns], [0], [ref.ravel()]
    if k in ("dedisperse", "subband"):
        md = min(sh.get("maxdelay", 0), ns - 1)
        d = r.integers(0, md + 1, size=nch).astype(np.int32)
        d[int(r.integers(0, nch))] = md
        no = ns - md
        if k == "dedisperse":
            idx = sh.get("index", 0)
            out = np.zeros(ns + idx + 1, np.float32)
            ref = out.astype(np.float64)
            for c in range(nch):
                ref[idx : idx + no] += X[d[c] : d[c] + no, c]
            return [x, out, d, md, nch, ns, idx], [1], [ref.astype(np.float32)]
        nsub = sh.get("nsub", 1)
        if nsub < 1 or nch % nsub:
            raise Rejected("nsub")
        c2s = (np.arange(nch) // (nch // nsub)).astype(np.int32)
        if nsub >= 2 and nch > nsub and int(sc["dseed"]) % 3 == 0:
            # any non-decreasing map onto [0, nsub) is a valid channel-to-sub-band table: unequal widths
            cuts = np.sort(r.choice(np.arange(1, nch), size=nsub - 1, replace=False))
            c2s = np.searchsorted(cuts, np.arange(nch), side="right").astype(np.int32)
        out = np.zeros(ns * nsub, np.float32)
        ref = np.zeros((ns, nsub))
        for c in range(nch):
            ref[:no, c2s[c]] += X[d[c] : d[c] + no, c]
        return [x, out, d, c2s, md, nch, nsub, ns], [1], [ref.astype(np.float32).ravel()]
    if k == "invert_freq":
        return [x, nch, ns], ["ret"], [x.reshape(ns, nch)[:, ::-1].ravel().copy()]
    if k == "remove_zerodm":
        p2 = 1 << int(np.ceil(np.log2(nch))) if nch > 1 else 1
        bp = np.full(nch, 64, np.float32)
        w = np.full(nch, 1.0 / p2, np.float32)
        ref = (X - X.sum(1, keepdims=True) * w[None, :].astype(np.float64)) + 64.0
        return [x, np.zeros_like(x), bp, w, nch, ns], [1], [ref.astype(dt).ravel()]
    if k in ("compute_online_moments", "compute_online_moments_basic"):
        xf = x.astype(np.float32)
        mom = np.zeros(nch, dtype=K.moments_dtype)
        return [xf, mom, 0], [1], [None]
    raise AssertionError(k)


def generate(rng, tier) -> dict:
    extra = rng.random() < 0.1
    k = rng.choice(EXTRA) if extra else rng.choice(KERNELS)
    compiled = rng.random() < (0.6 if extra else 0.3)
    sc = {"kernel": k, "dseed": rng.randrange(1 << 30), "dtype": rng.choice(["u1", "f4"])}
    if rng.random() < 0.12 and (k in NONFINITE_OK or k.startswith("downsample_1d")):
        sc["nonfinite"] = True
        sc["dtype"] = "f4"
    if k == "mask_channels" and rng.random() < 0.4:
        sc["slack"] = rng.choice([1, 2, 5, 37])  # spectra beyond nsamps in the buffer handed to the kernel
    if compiled:
        sc["mode"] = "compiled"
        sc["shape"] = big_shape(k, rng) if rng.random() < 0.5 else gen_shape(k, rng)
        sc["threads"] = sorted({1, rng.randint(2, 16), rng.randint(2, 16), rng.choice([2, 3, 8, 16])})
        if "nchans" in sc["shape"] and k not in EXTRA and rng.random() < 0.35:
            # iteration counts just above a multiple of (threads x a power of two): where a hand-made
            # partition of the loop (blocks per thread, padding to cache lines) loses its tail
            t0 = rng.choice([2, 3, 4, 8, 16])
            n0 = rng.choice([1, 8, 64]) * rng.randint(1, 4) * t0 + rng.randint(1, t0 - 1)
            other = rng.randint(1, 6)
            if k in ("extract_bpass", "mask_channels", "compute_online_moments", "compute_online_moments_basic"):
                sc["shape"].update({"nchans": n0, "nsamps": other})
            else:
                sc["shape"].update({"nchans": other, "nsamps": n0, "maxdelay": 0})
                if k == "subband":
                    sc["shape"]["nsub"] = 1
            sc["threads"] = sorted(set(sc["threads"]) | {t0})
        elif "nchans" in sc["shape"] and k not in EXTRA and rng.random() < 0.25:
            # a very short block of very wide data (fewer spectra than threads), and the reverse
            if rng.random() < 0.7:
                sc["shape"].update({"nchans": rng.choice([1024, 1088, 2048, 4096]), "nsamps": rng.randint(1, 15)})
            else:
                sc["shape"].update({"nchans": rng.choice([1, 2, 3]), "nsamps": rng.choice([1024, 4099, 20000])})
            if "maxdelay" in sc["shape"]:
                sc["shape"]["maxdelay"] = 0
            if k == "subband":
                sc["shape"]["nsub"] = 1
            sc["aspect"] = True
            sc["partition_edge"] = True
        sc["chunksize"] = rng.choice([0, 0, 1, 3])
        sc["repeats"] = rng.randint(1, 4)
    else:
        sc["mode"] = "sim"
        sc["shape"] = gen_shape(k, rng)
        sc["schedule"] = {"threads": rng.randint(1, 4), "chunk": rng.choice([0, 0, 1, 2]), "seed": rng.randrange(1 << 30),
                          "p": rng.choice([0.02, 0.05, 0.1, 0.3, 0.5]), "knobs": rng.choice([None, None, 1, 2, 3, 16, 64])}
        if "nchans" in sc["shape"] and k not in EXTRA and rng.random() < 0.12:
            # extreme aspect ratios: a very short block of very wide data (the tail block of a streamed read) and
            # the reverse - where "too few iterations for the pool" special cases live
            if rng.random() < 0.6:
                sc["shape"].update({"nchans": rng.choice([64, 128, 130, 192, 200]), "nsamps": rng.choice([1, 1, 2, 3])})
            else:
                sc["shape"].update({"nchans": rng.choice([1, 2]), "nsamps": rng.choice([64, 130, 200])})
            if "maxdelay" in sc["shape"]:
                sc["shape"]["maxdelay"] = 0
            if k == "subband":
                sc["shape"]["nsub"] = 1
            sc["aspect"] = True
    return sc


def fixup(sc):
    if sc["mode"] == "sim":
        s = sc["schedule"]
        s["threads"] = max(1, min(int(s.get("threads", 1)), 4))
    else:
        sc["threads"] = sorted({max(1, min(16, int(t))) for t in sc["threads"]} | {1})
        sc["repeats"] = max(1, sc["repeats"])
    return sc


def concretise(sc, out):
    art = out.artifacts or {}
    if sc.get("mode") == "compiled":
        # real scheduler: the cell is re-run up to `attempts` times (stops at the first mismatch)
        sc = copy.deepcopy(sc)
        sc["attempts"] = 200
        return sc
    if sc.get("mode") != "sim" or "passes" not in art:
        return None
    sc = copy.deepcopy(sc)
    sc["schedule"] = {"threads": sc["schedule"]["threads"], "work": art["work"], "passes": art["passes"], "knobs": sc["schedule"].get("knobs")}
    return sc


def nontrivial(sc, ctx) -> bool:
    return ctx.probes.get("nontrivial", 0) > 0


def deterministic(sc) -> bool:
    """mode=compiled runs on numba's real scheduler: its outcome on a racy kernel is not a function
    of the scenario, so it is excluded from the digest-equality self-check (mode=sim is included)."""
    return sc.get("mode") == "sim"


# ------------------------------------------------------------------ comparison
def outputs(args, outs, ret):
    return [ret if o == "ret" else args[o] for o in outs]


def same(a, b) -> bool:
    a, b = np.asarray(a), np.asarray(b)
    if a.shape != b.shape or a.dtype != b.dtype:
        return False
    if a.dtype.kind == "f" and (np.isnan(a).any() or np.isnan(b).any()):
        # a NaN is a NaN whatever its sign / payload bits; everything else bit for bit
        na, nb = np.isnan(a), np.isnan(b)
        return bool(np.array_equal(na, nb)) and a[~na].tobytes() == b[~nb].tobytes()
    return a.tobytes() == b.tobytes()


def moments_close(a, b):
    """|d| <= 1e-5 * (|x| + natural scale) per field; count/min/max exact."""
    for f in ("count", "min", "max"):
        if not np.array_equal(a[f], b[f]):
            return f
    n = np.maximum(a["count"].astype(np.float64), 1)
    sig = np.sqrt(np.maximum(a["m2"].astype(np.float64) / n, 0)) + 1e-3
    for f, p in (("m1", 1), ("m2", 2), ("m3", 3), ("m4", 4)):
        if f not in a.dtype.names:
            continue
        scale = (sig ** p) * (n if p > 1 else 1)
        d = np.abs(a[f].astype(np.float64) - b[f].astype(np.float64))
        if np.any(d > 1e-5 * (np.abs(a[f].astype(np.float64)) + scale)):
            return f
    return None


def moments_reference(xf, nch, basic):
    X = xf.reshape(-1, nch).astype(np.float64)
    n = X.shape[0]
    m1 = X.mean(0)
    d = X - m1
    out = {"count": np.full(nch, n), "min": X.min(0), "max": X.max(0), "m1": m1, "m2": (d ** 2).sum(0)}
    if not basic:
        out["m3"] = (d ** 3).sum(0)
        out["m4"] = (d ** 4).sum(0)
    return out


def check_moments_vs_definition(mom, xf, nch, basic, mk) -> None:
    ref = moments_reference(xf, nch, basic)
    n = ref["count"][0]
    sig = np.sqrt(ref["m2"] / max(n, 1)) + 1e-3
    if not np.array_equal(mom["count"], ref["count"]) or not np.array_equal(mom["min"], ref["min"]) or not np.array_equal(mom["max"], ref["max"]):
        raise mk("differs-from-definition", "count/min/max")
    for f, p in (("m1", 1), ("m2", 2), ("m3", 3), ("m4", 4)):
        if f not in ref:
            continue
        scale = (sig ** p) * (n if p > 1 else 1)
        if np.any(np.abs(mom[f].astype(np.float64) - ref[f]) > 1e-4 * (np.abs(ref[f]) + scale)):
            raise mk("differs-from-definition", f"{f}: {mom[f].tolist()} vs {ref[f].tolist()}")


# ------------------------------------------------------------------ execution
def execute(sc, ctx) -> None:
    import sigpyproc.core.kernels as K

    k = sc["kernel"]
    disp = getattr(K, k, None)
    if disp is None or not hasattr(disp, "py_func"):
        ctx.observations[f"kernel-not-found:{k}"] += 1
        raise Rejected(f"kernels.{k} does not exist in this tree")
    info = {"api": k, "mode": sc["mode"], "shape": sc["shape"], "dtype": sc.get("dtype")}

    def mk(clause, detail=""):
        return Violation(f"C19/{k}/{clause}/{sc['mode']}", detail, info)

    args0, outs, refs = make_args(sc)
    is_mom = k.startswith("compute_online_moments")
    niter = _niter(sc)
    if niter <= 1:
        ctx.probe("degenerate-shape")
    if sc.get("aspect"):
        ctx.probe("extreme-aspect-ratio:" + sc["mode"])
    if sc.get("nonfinite"):
        ctx.probe("blanked-stretches(NaN/inf):" + sc["mode"])
    if sc.get("slack") and k == "mask_channels":
        ctx.probe("buffer-longer-than-nsamps:" + sc["mode"])
    ctx.sig += [k, sc["mode"], sc.get("dtype")]
    if sc["mode"] == "sim":
        sch = sc["schedule"]
        T = int(sch.get("threads", 1))
        # reference: the SAME outlined source on one virtual thread
        a_ref = [a.copy() if isinstance(a, np.ndarray) else a for a in args0]
        r_ref, sim1, _ = V.run_kernel(disp, a_ref, {"threads": 1, "knobs": sch.get("knobs")})
        if sim1.knobs_changed:
            ctx.probe("size-thresholds-shrunk")
            ctx.observations["knobs:" + ",".join(sorted(sim1.knobs_changed))] += 1
        if sim1.npar < 1:
            if k in EXTRA:
                ctx.observations["extra-kernel-is-serial"] += 1
                ctx.probe("extra-kernel-run")
                ctx.log("sim", k, "serial")
                return
            raise mk("kernel-has-no-prange", "nothing to schedule")
        a_sim = [a.copy() if isinstance(a, np.ndarray) else a for a in args0]
        try:
            r_sim, sim, tr = V.run_kernel(disp, a_sim, sch)
        except V.HarnessStall:
            raise
        ctx.sched_steps += sim.steps
        ctx.artifacts["passes"] = sim.trace
        ctx.artifacts["work"] = sim.work_used
        if sim.switches_with_2_alive:
            ctx.probe(">=2-threads-alive-at-a-switch")
        if sim.work_used and sum(len(w) for w in sim.work_used) > T:
            ctx.probe("chunks>threads")
        if k not in EXTRA:
            ctx.probe(f"sim:{k}")
        if T > 1 and niter >= 2:
            ctx.probe("nontrivial")
        sched_digest = hashlib.sha1(repr((sim.work_used, sim.trace)).encode()).hexdigest()[:12]
        ctx.log("sim", k, sc["shape"], T, sim.steps, len(sim.trace), sched_digest)
        ctx.sig.append(f"T{T}:sw{min(sim.switches_with_2_alive, 3)}")
        ww, rw = sim.conf
        info.update({"threads": T, "steps": sim.steps, "switches": sim.switches_with_2_alive})
        if ww:
            (name, el), ths = ww[0]
            raise mk("race-write-write", f"{len(ww)} element(s) written by more than one virtual thread, e.g. {name}[{el}] by threads {ths}")
        if rw:
            (name, el), ws, rs = rw[0]
            raise mk("race-read-write", f"{len(rw)} element(s) written by one thread and read by another, e.g. {name}[{el}] written by {ws} read by {rs}")
        multi = {name: sorted(ths) for name, ths in sim.array_reds.items() if len(ths) > 1}
        if multi:
            name, ths = sorted(multi.items())[0]
            raise mk("array-reduction-across-threads", f"floating-point array {name!r} is the sum of private per-thread copies (threads {ths}): its elements are computed from several threads, grouped by the schedule")
        o_ref, o_sim = outputs(a_ref, outs, r_ref), outputs(a_sim, outs, r_sim)
        for i, (x, y) in enumerate(zip(o_ref, o_sim)):
            if not same(x, y):
                raise mk("schedule-dependent-result", f"output {i} differs from the single-thread run of the same source")
        if k in EXTRA:
            ctx.probe("extra-kernel-run")
        elif is_mom:
            check_moments_vs_definition(o_sim[0], args0[0], len(o_sim[0]), k.endswith("basic"), mk)
        else:
            for i, (y, ref) in enumerate(zip(o_sim, refs)):
                if ref is not None and not same(np.asarray(y), ref.astype(np.asarray(y).dtype)):
                    raise mk("differs-from-definition", f"output {i} differs from the numpy definition")
        ctx.log("out", [zlib.crc32(np.asarray(o).tobytes()) for o in o_sim])
        return
    # ---------------- compiled cross-check (real scheduler)
    import numba

    layer = os.environ.get("NUMBA_THREADING_LAYER", "default")
    ctx.probe(f"compiled:{k}" if k not in EXTRA else "extra-kernel-run")
    ctx.probe(f"compiled:layer:{layer}")
    a_py = [a.copy() if isinstance(a, np.ndarray) else a for a in args0]
    r_py = disp.py_func(*a_py)
    o_py = outputs(a_py, outs, r_py)
    first = None
    maxt = numba.config.NUMBA_NUM_THREADS
    cs = int(sc.get("chunksize", 0))
    if cs:
        ctx.probe("compiled:chunksize>0")
    if sc.get("partition_edge"):
        ctx.probe("compiled:iterations-just-above-threads-x-2^k")
    info.update({"layer": layer, "chunksize": cs})
    try:
      for _attempt in range(int(sc.get("attempts", 1))):
          for t in sc["threads"]:
              t = min(t, maxt)
              if t >= 8:
                  ctx.probe("compiled:threads>=8")
              numba.set_num_threads(t)
              for rep in range(sc["repeats"]):
                  a = [x.copy() if isinstance(x, np.ndarray) else x for x in args0]
                  numba.set_parallel_chunksize(cs)
                  try:
                      ret = disp(*a)
                  finally:
                      numba.set_parallel_chunksize(0)
                  o = outputs(a, outs, ret)
                  if first is None:
                      first = o
                  else:
                      for i, (x, y) in enumerate(zip(first, o)):
                          if not same(x, y):
                              raise mk("thread-count-dependent-result", f"output {i}: threads={t} repeat={rep} chunksize={cs} layer={layer} differs from threads=1")
              if t > 1 and niter >= 2:
                  ctx.probe("nontrivial")
    finally:
        numba.set_num_threads(1)
    if k == "fold":
        pass  # reference is the 1-thread compiled run (the interpreted definition evaluates the phase in other precisions)
    elif is_mom:
        bad = moments_close(first[0], o_py[0])
        if bad:
            raise mk("differs-from-python-definition", f"field {bad}")
    else:
        for i, (x, y) in enumerate(zip(first, o_py)):
            if not same(np.asarray(x), np.asarray(y).astype(np.asarray(x).dtype)):
                raise mk("differs-from-python-definition", f"output {i}")
    ctx.log("compiled", k, sc["shape"], sc["threads"], cs, sc["repeats"], [zlib.crc32(np.asarray(o).tobytes()) for o in o_py])
    ctx.sig.append(f"cs{cs}:T{max(sc['threads'])}")


def _niter(sc) -> int:
    k, sh = sc["kernel"], sc["shape"]
    if k in EXTRA:
        return sh.get("n", sh.get("nsamps", 2))
    if k.startswith("downsample"):
        return sh["m1"]
    if k in ("extract_bpass", "mask_channels") or k.startswith("compute_online"):
        return sh["nchans"]
    if k in ("dedisperse", "subband"):
        return sh["nsamps"] - min(sh.get("maxdelay", 0), sh["nsamps"] - 1)
    return sh["nsamps"]
