"""C16 static metadata."""
LEVEL = "exploration"
QUICK_RUNS = 4800
THOROUGH_BUDGET_S = 600
RULE = (
    "seeded scenarios of two kinds. (mask) RFIMask as a state machine: histories of 1-6 apply_mask / apply_method / "
    "apply_funcn calls on generated statistics vectors (planted outliers kept a safe distance from the threshold, "
    "all-equal vectors), both methods, frequency-range lists (empty, overlapping, outside the band, exactly on a channel "
    "centre), custom functions (identity, none, every-k-th); after every call chan_mask == union of everything flagged so "
    "far and is a superset of its previous value, user/stats/custom masks == the model of the latest call of their kind; "
    "then to_file -> from_file must reproduce arrays, threshold and scalar header fields (h5py: real, fault-free). "
    "(clean) Filterbank.clean_rfi on harness-written files (depth 1,2,4,8,32) under two gulps: returned mask == user u "
    "stats u custom (stats from the statistics the mask itself reports), cleaned file: masked channels == mask value in "
    "EVERY block, every other sample bit-identical; fault runs add R1/R2/W3 (raises-or-exact). Non-trivial = a mask "
    "history of >= 2 calls or a cleaned file compared; distinct = distinct event digests among those."
)
PROBES = [">=3-blocks", "mask-touches-first-channel", "mask-touches-last-channel", "empty-final-mask", "history>=3",
          "range-exactly-on-channel-centre", "range-end-on-a-centre-not-exact-in-float32", "method:mad", "method:iqrm", "all-equal-vector", "file-roundtrip", "clean:two-gulps",
          "clean:default-mask-value", "fault-raised", "sub-byte", "clean:non-finite-samples"]
COMPONENTS = {
    "real": ["sigpyproc.core.rfi.RFIMask (apply_mask/apply_method/apply_funcn/to_file/from_file)", "double_mad_mask / iqrm_mask",
             "Filterbank.clean_rfi / compute_stats / apply_channel_mask + mask_channels kernel", "h5py (outside the fault seam)"],
    "simulated": ["call histories on the mask object", "io.FileIO -> SimFileIO and wrapped FileWriter for clean_rfi (read/write events and faults)",
                  "input files (harness encoder); cleaned file parsed by the harness' own parser"],
    "stubbed": [],
}
ASSUMPTIONS = [
    "z-scores are taken from the library's estimate_zscore (C15 owns the estimators); C16 models thresholding, lag structure (IQRM), range membership and the unions",
    "margin rule: scenarios with ||z|-threshold| < 1e-3*threshold, or a range end within 1e-3 MHz of a channel centre without being exactly on it, are rejected",
    "with repeated calls of one kind the component mask holds the latest call while chan_mask keeps the union of all calls",
]

# dimensions added in seeded rounds 6 and 7
PROBES = list(PROBES) + ["output-name-held-a-longer-file", "integer-arguments-as-numpy-scalars"]

# dimensions added in seeded round 9
PROBES = list(PROBES) + ["second-mask-object-derived:evolve", "second-mask-object-derived:copy", "second-mask-object-derived:ctor", "second-mask-object-derived:deepcopy"]
RULE = RULE + (" Round 9: 30% of mask histories derive a second RFIMask in mid-history (attrs.evolve at another threshold, copy.copy, copy.deepcopy, the constructor given the first "
               "one's arrays), apply 1-2 operations to it, and go on with the original; each object keeps its own set model and neither may change through the other.")

# dimensions added in seeded round 10
PROBES = list(PROBES) + ["ranges-given-as:tuple", "ranges-given-as:ndarray", "ranges-given-as:zip", "ranges-given-as:generator", "ranges-given-as:map"]
RULE = RULE + " Round 10: the frequency ranges are handed over as a list, a tuple, an (n,2) array, or a one-shot iterable (zip / generator / map); a range end on a channel centre keeps the list form (margin rule: float64 array elements and Python floats are compared at different precisions)."


# every child process of this property (workers, the determinism worker, replays, warm-up) may use up to 4 numba threads;
# a scenario runs on 1 unless it says otherwise ("numba_threads", see sim.core._set_numba_threads)
CHILD_ENV = {"NUMBA_NUM_THREADS": "4"}

# dimensions added in seeded round 11
PROBES = list(PROBES) + ["numba-threads>1"]
RULE = RULE + " Round 11: 0.4% of cleaning runs (1.2% thorough) use 1009-1031 channels x 4-5 thousand samples in one block, masks at both band edges, on 3-4 numba threads (children get NUMBA_NUM_THREADS=4; every other scenario runs on 1 thread)."
