"""C17 - re-tuning a folded cube depends only on the target DM/period, not the history."""
from __future__ import annotations

import zlib

import numpy as np

from sim.core import Violation

ID = "C17"
SHRINK_LISTS = ("ops",)
SHRINK_MIN = {"nints": 1, "nbands": 1, "nbins": 2, "nchans_per_band": 1}
SHRINK_SIMPLE = {"layout": "C"}


def warm() -> None:
    import sigpyproc.foldedcube  # noqa: F401


def generate(rng, tier) -> dict:
    sc = _generate(rng, tier)
    if rng.random() < (0.004 if tier == "quick" else 0.01):
        # a diagnostic-plot sized cube (millions of samples): block-wise code paths inside an update only exist there
        sc["nints"], sc["nbands"], sc["nbins"] = rng.choice([(64, 64, 512), (128, 128, 128), (40, 60, 1024), (300, 8, 1024)])
        sc["nchans_per_band"] = 1
        sc["layout"] = rng.choice(["C", "C", "F"])
        sc["data"] = "arange"
        kind = rng.choice(["period", "period", "period", "dm"])
        keep = [o for o in sc["ops"] if o["k"] == kind][:2]
        first = {"k": "period", "v": sc["fold_period"] * (1 + rng.choice([1, -1]) * (9e-6 if sc["nsamples"] > 1000000 else 7e-4))} if kind == "period" \
            else {"k": "dm", "v": sc["fold_dm"] + rng.choice([0.5, 3.0, 7.25])}
        sc["ops"] = [first] + keep
        sc["large"] = True
    return sc


def _generate(rng, tier) -> dict:
    nints, nbands, nbins = rng.randint(1, 6), rng.randint(1, 6), rng.choice([2, 4, 8, 16, 32, rng.randint(2, 32)])
    fold_dm = rng.choice([0.0, 10.0, 56.75])
    fold_p = rng.choice([0.1, 0.0333, 1.2345])
    long_obs = rng.random() < 0.3  # an hour instead of 100 s: tiny relative changes then still move bins
    eps = (2e-6, 5e-6, 9e-6) if long_obs else (1e-4, 3.3e-4, 7e-4)
    harmonics = rng.random() < 0.12
    if harmonics:
        # a millisecond pulsar folded for an hour and re-tuned to HARMONICS of the period (2P, P/2, 3P/2): the drift
        # across the observation is then tens of millions of bins - beyond 2^24, where float32 stops holding integers
        fold_p, long_obs = rng.choice([0.0025, 0.001, 0.0016]), True
        eps = (1.0, 0.5, 2.0)
    dms = [fold_dm, fold_dm + 0.5, fold_dm + 1.0, fold_dm - 0.75, fold_dm + 3.0, fold_dm + 7.25]
    if long_obs and fold_dm > 0:
        dms += [fold_dm * (1 + 4e-6), fold_dm * (1 - 8e-6)]
    ps = [fold_p, fold_p * (1 + eps[0]), fold_p * (1 - eps[0]), fold_p * (1 + eps[1]), fold_p * (1 - eps[2])]
    if harmonics:
        ps = [fold_p, fold_p * 2, fold_p * 0.5, fold_p * 1.5, fold_p * 3, fold_p * (1 + 2e-6)]
    mix = rng.choice(["dm", "period", "mixed"])
    ops = []
    for _ in range(rng.randint(1, 12 if tier == "quick" else 30)):
        kind = mix if mix != "mixed" else rng.choice(["dm", "period"])
        r = rng.random()
        if r < 0.2 and ops:
            ops.append(dict(ops[-1]))  # repeat-last
            continue
        if r < 0.35:
            v = fold_dm if kind == "dm" else fold_p  # return to fold
        elif r < 0.85:
            v = rng.choice(dms if kind == "dm" else ps)
        else:
            v = round(fold_dm + rng.uniform(-5, 20), 3) if kind == "dm" else fold_p * (1 + round(rng.uniform(-1e-3, 1e-3), 7))
        ops.append({"k": kind, "v": v})
    if rng.random() < 0.3 and len(ops) >= 2:
        # a second cube DERIVED from this one in mid-history (centre()), then re-tuned on its own: calls on
        # another object are not part of this cube's history
        at = rng.randint(1, len(ops) - 1)
        ops.insert(at, {"k": "centre", "v": 0})
        for _ in range(rng.randint(1, 3)):
            j = rng.randint(at + 1, len(ops))
            kind = rng.choice(["dm", "period"])
            ops.insert(j, {"k": "side_" + kind, "v": rng.choice([fold_dm, fold_dm, fold_dm + 1.0] if kind == "dm" else [fold_p, fold_p, ps[1]])})
    return {"nints": nints, "nbands": nbands, "nbins": nbins, "nchans_per_band": rng.choice([1, 2, 4]),
            "layout": rng.choice(["C", "C", "C", "T", "F", "slice", "C", "readonly"]), "header_dm": rng.choice([0.0, 0.0, 35.0, fold_dm]), "nsamples": 3600000 if long_obs else 100000,
            "fold_dm": fold_dm, "fold_period": fold_p, "ops": ops, "data": rng.choice(["arange", "arange", "zero-sum"]), "harmonics": harmonics}


def fixup(sc):
    for k in ("nints", "nbands", "nchans_per_band"):
        sc[k] = max(1, sc[k])
    sc["nbins"] = max(2, sc["nbins"])
    return sc


def nontrivial(sc, ctx) -> bool:
    return len(sc["ops"]) >= 2 and ctx.probes.get("nonzero-rotation", 0) > 0


def make_cube(sc, ctx, layout="C"):
    """A cube with all-distinct values.  `layout` chooses how the SAME logical array sits in memory:
    C-contiguous, a transposed view of a band-major array, Fortran order, or a slice of a larger cube."""
    from sigpyproc.foldedcube import FoldedData

    from .c04 import base_header

    nchans = sc["nbands"] * sc["nchans_per_band"]
    hdr = base_header(ctx, 1).new_header({"nchans": nchans, "fch1": 400.0, "foff": -80.0 / nchans, "tsamp": 0.001,
                                          "nsamples": int(sc.get("nsamples", 100000)), "nbits": 32, "dm": float(sc.get("header_dm", 0.0))})
    ni, nb, nbin = sc["nints"], sc["nbands"], sc["nbins"]
    data = np.arange(ni * nb * nbin, dtype=np.float32).reshape(ni, nb, nbin)
    if sc.get("data") == "zero-sum":
        # baseline-subtracted profiles: all-distinct values whose sum over phase is exactly 0.0 in float32
        base = np.arange(nbin, dtype=np.float32) - np.float32((nbin - 1) / 2.0)
        scale = (1 + np.arange(ni * nb, dtype=np.float32)).reshape(ni, nb, 1)
        data = (base[None, None, :] * scale).astype(np.float32)
    pristine = data.copy()  # returned as the reference: never shares memory with the cube
    if layout == "T":
        arr = np.array(data.transpose(1, 0, 2), order="C", copy=True).transpose(1, 0, 2)
    elif layout == "F":
        arr = np.array(data, order="F", copy=True)
    elif layout == "slice":
        big = np.full((ni, nb + 2, nbin), -1, dtype=np.float32)
        big[:, 1 : 1 + nb] = data
        arr = big[:, 1 : 1 + nb]
    else:
        arr = data.copy()
    if np.shares_memory(arr, pristine):
        arr = arr.copy()
    if layout == "readonly":  # a cube wrapped around memory the caller may not write (np.load(mmap_mode="r"), frombuffer)
        arr.flags.writeable = False
    return FoldedData(arr, hdr, sc["fold_period"], sc["fold_dm"], 0), pristine


def rotations(cur, orig):
    """Per-profile rotation s with cur == roll(orig, s); None if some profile is not a rotation."""
    out = np.zeros(cur.shape[:2], dtype=int)
    nb = orig.shape[2]
    for i in range(orig.shape[0]):
        for j in range(orig.shape[1]):
            pos = np.nonzero(cur[i, j] == orig[i, j, 0])[0]
            if len(pos) != 1 or not np.array_equal(np.roll(orig[i, j], int(pos[0])), cur[i, j]):
                return None
            out[i, j] = int(pos[0]) % nb
    return out


def check_implied_shift(sc, cube, rot, op, mk, ctx) -> None:
    """Absolute, deliberately tolerant model of "the shift implied by the final value relative to the
    folding value" for single-parameter histories: the real-valued drift in bins from the dispersion law
    (sub-band centre frequencies, bin width period/nbins) or from the linear period drift across
    sub-integrations; the observed rotation must be within 1 bin of it (any rounding convention passes)."""
    nints, nbands, nbins = sc["nints"], sc["nbands"], sc["nbins"]
    hdr = cube.header
    if op["k"] == "dm":
        chan_width = hdr.foff * hdr.nchans / nbands
        freqs = np.arange(nbands, dtype=np.float64) * chan_width + hdr.fch1
        drift = 4.148808e3 * (op["v"] - sc["fold_dm"]) * (freqs ** -2 - float(hdr.fch1) ** -2) / (sc["fold_period"] / nbins)
        model = -drift[None, :] * np.ones((nints, 1))
    else:
        dbins = (op["v"] / sc["fold_period"] - 1) * hdr.tobs * nbins / sc["fold_period"]
        drift = np.arange(nints, dtype=np.float64) * dbins / nints
        model = -drift[:, None] * np.ones((1, nbands))
    if np.any(np.abs(model) > (1 << 20)):
        # millions of bins: the library evaluates the drift in float32 (relative error 6e-8), so the absolute position is
        # not fixed to within a bin by the statement; history independence (checked elsewhere) is what remains
        ctx.probe("implied-shift-beyond-2^20-bins")
        return
    diff = (rot - model) % nbins
    dist = np.minimum(diff, nbins - diff)
    if nbins >= 4 and np.any(dist > 1.0 + 1e-3):
        i, j = np.argwhere(dist > 1.0 + 1e-3)[0]
        raise mk("rotation-differs-from-the-implied-shift",
                 f"profile (subint {i}, band {j}) is rotated by {int(rot[i, j])} bins; the {op['k']} change implies {model[i, j] % nbins:.2f} (mod {nbins})")
    if np.any(np.abs(model) >= 1.5):
        ctx.probe("implied-shift>=1.5-bins-checked")


def execute(sc, ctx) -> None:
    layout = sc.get("layout", "C")
    cube, orig = make_cube(sc, ctx, layout)
    twin, _ = make_cube(sc, ctx, "C")  # same values, C-contiguous, same history: the memory layout must not matter
    if layout != "C":
        ctx.probe("non-contiguous-cube")
    if sc.get("large"):
        ctx.probe("cube-of-millions-of-samples")
    if sc.get("data") == "zero-sum":
        ctx.probe("profiles-summing-to-exactly-zero")
    if sc.get("header_dm", 0.0) != sc["fold_dm"]:
        ctx.probe("header-dm-differs-from-folding-dm")
    if cube.dm != sc["fold_dm"] or cube.period != sc["fold_period"]:
        raise Violation("C17/construct/reported-values", f"a cube folded at dm={sc['fold_dm']} period={sc['fold_period']} reports dm={cube.dm} period={cube.period}",
                        {"api": "FoldedData", "fold_dm": sc["fold_dm"], "header_dm": sc.get("header_dm", 0.0)})
    kinds = {o["k"] for o in sc["ops"] if o["k"] in ("dm", "period")}
    single = len(kinds) == 1
    side = twin_side = None
    ctx.probe("dm-only" if kinds == {"dm"} else "period-only" if kinds == {"period"} else "mixed-dm-period")
    if len(sc["ops"]) >= 4:
        ctx.probe("history>=4")
    ctx.sig += [",".join(sorted(kinds)), f"len{min(len(sc['ops']), 5)}", layout]
    cur = {"dm": sc["fold_dm"], "period": sc["fold_period"]}
    prev_op = None
    for i, op in enumerate(sc["ops"]):
        if op["k"] == "centre":
            try:
                side, twin_side = cube.centre(), twin.centre()
                ctx.probe("derived-cube-made-in-mid-history")
            except Exception as e:  # noqa: BLE001 - context: centre() may refuse a profile without a pulse
                ctx.observations["centre-raised:" + type(e).__name__] += 1
            continue
        if op["k"].startswith("side_"):
            if side is not None:
                main_before = np.asarray(cube.data).copy()
                try:
                    for c in (side, twin_side):
                        (c.update_dm if op["k"] == "side_dm" else c.update_period)(op["v"])
                except Exception as e:  # noqa: BLE001
                    ctx.observations["side-update-raised:" + type(e).__name__] += 1
                ctx.probe("derived-cube-retuned")
                if not np.array_equal(main_before, np.asarray(cube.data)):
                    raise Violation("C17/derived-cube/update-changed-the-cube-it-was-derived-from", f"{op['k']}({op['v']}) on the centred copy changed the original's data",
                                    {"api": "centre", "history": [[o["k"], o["v"]] for o in sc["ops"][: i + 1]]})
            continue
        before = cube.data.copy()
        info = {"api": f"update_{op['k']}", "value": op["v"], "op_index": i, "history": [[o["k"], o["v"]] for o in sc["ops"][: i + 1]],
                "fold_dm": sc["fold_dm"], "fold_period": sc["fold_period"], "single": single}

        def mk(clause, detail):
            return Violation(f"C17/update_{op['k']}/{clause}/{'single' if single else 'mixed'}", detail, info)

        try:
            if op["k"] == "dm":
                cube.update_dm(op["v"])
                twin.update_dm(op["v"])
            else:
                cube.update_period(op["v"])
                twin.update_period(op["v"])
        except Exception as e:  # noqa: BLE001
            if layout == "readonly" and isinstance(e, ValueError) and "read-only" in str(e):
                # refusing to re-tune a cube that cannot be written is an answer; the refusal must leave it as it was
                ctx.probe("read-only-cube-refused")
                if not np.array_equal(before, np.asarray(cube.data)) or cube.dm != cur["dm"] or cube.period != cur["period"]:
                    raise mk("refused-update-changed-the-cube", f"dm={cube.dm} period={cube.period}, before the refused call {cur}") from None
                continue
            raise mk("raised", repr(e)) from None
        if not np.array_equal(np.asarray(cube.data), np.asarray(twin.data)):
            raise mk("memory-layout-dependent", f"a cube held as a {layout!r} view differs from a C-contiguous cube with the same values after the same history")
        cur[op["k"]] = op["v"]
        if cube.dm != cur["dm"] or cube.period != cur["period"]:
            raise mk("reported-values", f"dm={cube.dm} period={cube.period}, last set {cur}")
        rot = rotations(np.asarray(cube.data), orig)
        if rot is None:
            raise mk("not-a-rotation", "a profile is no longer a rotation of the original (values lost or mixed)")
        if rot.any():
            ctx.probe("nonzero-rotation")
        ctx.log("op", i, op["k"], op["v"], zlib.crc32(rot.astype(np.int32).tobytes()))
        if prev_op == op:
            ctx.probe("repeat-last")
            if not np.array_equal(before, cube.data):
                raise mk("repeat-changes-data", "repeating the same update changed the cube")
        if cur["dm"] == sc["fold_dm"] and cur["period"] == sc["fold_period"]:
            ctx.probe("return-to-fold")
            if not np.array_equal(cube.data, orig):
                raise mk("return-to-fold-does-not-restore", f"rotations left: {rot.tolist()}")
        if single:
            check_implied_shift(sc, cube, rot, op, mk, ctx)
            fresh, _ = make_cube(sc, ctx)
            if op["k"] == "dm":
                fresh.update_dm(op["v"])
            else:
                fresh.update_period(op["v"])
            ctx.probe("one-step-compared")
            if not np.array_equal(fresh.data, cube.data):
                fr = rotations(np.asarray(fresh.data), orig)
                raise mk("history-dependent", f"cube after the history differs from a fresh cube given {op['v']} in one call: rotations {rot.tolist()} vs {None if fr is None else fr.tolist()}")
        prev_op = op
