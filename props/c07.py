"""C07 - streaming file-to-file transforms equal their whole-array definitions."""
from __future__ import annotations

import os
import zlib

import numpy as np

from sim import filgen
from sim import transforms as T
from sim.core import open_reader, Rejected, SimLivelock, Violation
from sim.disk import SimDisk

ID = "C07"
VARY_WRITE_CAP = True  # W4: partial raw data writes (sim.disk)
VARY_KNOBS = True  # module-level tuning constants of the library are lowered in some runs (sim.core.lower_tuning_constants)
VARY_ARGFORM = True  # integer call arguments also arrive as numpy integer scalars
GUARD_KERNELS = True
SHRINK_LISTS = ("ops", "faults", "pre", ("files", "nsamps"))
SHRINK_SIMPLE = {"write_cap": None, "knobs": None, "earlier": None, "argform": "int", "stale": None}
SHRINK_MIN = {"nchans": 1, "nbits": 1, "gulp": 1, "tfactor": 1, "ffactor": 1, "nsub": 1, "batch_size": 1, "chanpersub": 2, "nchans_b": 2}


def warm() -> None:
    import tempfile

    from sigpyproc.readers import FilReader

    from sim.core import scratch_root

    root = tempfile.mkdtemp(dir=scratch_root())
    for nbits in (8, 32, 2):
        spec = {"nbits": nbits, "nchans": 4, "nsamps": [6], "vseed": 1, "mode": "small", **T.DISP_BAND}
        fs = filgen.write_fileset(root, spec, stem=f"w{nbits}_")
        r = FilReader(fs.paths)
        for name in T.NAMES:
            params = {"mask": [True, False, False, True], "mask_value": 1, "chans": [0, 2], "batch_size": 2, "chanstart": 0,
                      "nchans": 4, "chanpersub": 4, "tfactor": 2, "ffactor": 1, "dm": 0.0, "nsub": 2}
            try:
                T.call(name, r, root, params, 3, 0, None)
            except Exception:  # noqa: BLE001,S110 - warm-up only
                pass
        r.collapse(quiet=True); r.bandpass(quiet=True)


# ------------------------------------------------------------------ generation
def gen_files(rng, name, tier):
    if rng.random() < (0.02 if tier == "quick" else 0.06):
        # size thresholds (pages, tiles, coalescing buffers) are invisible to 40-sample files
        nbits = rng.choice([1, 2, 4, 8, 32])
        nchans = rng.choice([c for c in (64, 128, 256) if (c * nbits) % 8 == 0])
        total = rng.randint(300, 1500)
        nfiles = rng.choice([1, 2])
        counts = [total] if nfiles == 1 else [total // 3, total - total // 3]
        spec = {"nbits": nbits, "nchans": nchans, "nsamps": counts, "pad": [0] * nfiles, "vseed": rng.randrange(1 << 16),
                "mode": T.data_mode(name, nbits), "big": True}
        if T.needs_disp_band(name):
            spec.update(T.DISP_BAND)
            spec["foff"] = -10.0 * 16 / nchans  # keep the band (hence the sweep) the same width
        return spec
    nbits = rng.choice([1, 2, 4, 8, 8, 32, 32])  # the quantifier: depths {1,2,4,8,32} (16-bit blocks are refused by the compiled kernels)
    chans = [c for c in (1, 2, 4, 6, 7, 8, 12, 14, 16) if (c * nbits) % 8 == 0]
    if T.needs_disp_band(name):
        chans = [c for c in chans if c > 1]  # a 1-channel band has no dispersion sweep (delays squeeze to 0-d)
    nchans = rng.choice(chans)
    nfiles = rng.choice([1, 1, 2])
    mx = 40 if tier == "quick" else 160
    counts = [rng.choice([1, 2, rng.randint(1, mx // nfiles), rng.randint(1, mx // nfiles)]) for _ in range(nfiles)]
    spec = {"nbits": nbits, "nchans": nchans, "nsamps": counts, "pad": filgen.gen_pads(rng, len(counts), 5),
            "vseed": rng.randrange(1 << 16), "mode": T.data_mode_rng(name, nbits, rng)}
    if name == "downsample" and nbits in (8, 16) and rng.random() < 0.25:
        spec["mode"] = "bits"  # the whole range of the sample type: block means still fit
    elif name == "downsample" and rng.random() < 0.3:
        spec["mode"] = "flat"  # exact-integer block means: the reduced value is then fixed by ANY rounding rule
        if rng.random() < 0.5:
            spec["nsamps"] = [rng.randint(49, 120)]
            spec["pad"] = [0]
    if T.needs_disp_band(name):
        spec.update(T.DISP_BAND)
    return spec


def generate(rng, tier) -> dict:
    if rng.random() < (0.0015 if tier == "quick" else 0.005):
        # a decimation whose every output value averages ~17 million input values near the top of the 8-bit range: the
        # sum of one bin passes 2^32 (and 2^24 long before): where an accumulator narrower than the definition's gives out
        tf = rng.randint(4250000, 4400000)
        n = 2 * tf + rng.randint(0, 1000)
        return {"files": {"nbits": 8, "nchans": 4, "nsamps": [n], "pad": [0], "vseed": rng.randrange(1 << 16), "mode": "high", "big": True},
                "name": "downsample", "params": {"tfactor": tf, "ffactor": 4}, "start": 0, "nsamps": None, "pre": [], "ops": [{"gulp": None}], "faults": [], "huge": True}
    name = rng.choice(T.NAMES)
    for _ in range(50):
        spec = gen_files(rng, name, tier)
        N = sum(spec["nsamps"])
        r = rng.random()
        if r < 0.4:
            start, nsamps = 0, None
        elif r < 0.55:
            start, nsamps = rng.randint(0, N - 1), None  # nsamps left at its default
        else:
            start = rng.randint(0, N - 1)
            nsamps = rng.randint(1, N - start)
        ns = N - start if nsamps is None else nsamps
        try:
            params = T.gen_params(name, rng, spec, ns)
        except Rejected:
            continue
        break
    else:
        raise AssertionError("generator could not find an in-domain scenario")
    ops = []
    for _ in range(rng.choice([1, 2, 2])):
        ops.append({"gulp": max(1, rng.choice([1, 2, 3, rng.randint(1, max(1, ns)), ns, ns + rng.randint(1, 4), max(1, ns // 2), max(1, ns // 3)]))})
    if rng.random() < 0.1:
        ops[rng.randrange(len(ops))]["gulp"] = None  # gulp left at its default
    if rng.random() < 0.08:
        ops[0]["reentrant"] = True  # the allocator callback of this call runs the same transform on another reader
    if len(ops) == 2 and rng.random() < 0.3 and N >= 2:
        st2 = rng.randint(0, N - 1)
        ops[1].update({"start": st2, "nsamps": rng.randint(1, N - st2)})
    faults = []
    if rng.random() < 0.25:
        for _ in range(rng.choice([1, 1, 2])):
            kind = rng.choice(["R1", "R2", "W3", "W3"])
            faults.append({"kind": kind, "op": rng.randrange(len(ops)), "call": rng.choice([0, 1, 1, 2, 3, 4]),
                           "arg": rng.choice([0, 1, 3, rng.randint(0, 64)])})
    from .c06 import gen_pre

    pre = gen_pre(rng, N) if rng.random() < 0.3 else []
    sc = {"files": spec, "name": name, "params": params, "start": start, "nsamps": nsamps, "pre": pre, "ops": ops, "faults": faults}
    if rng.random() < 0.2:
        # an EARLIER session in the same process: another file (other channel count, same depth) was
        # processed with the same transform by a reader that no longer exists
        for _ in range(20):
            nch2 = rng.choice([c for c in (1, 2, 4, 6, 8, 12, 16) if (c * spec["nbits"]) % 8 == 0])
            same_band = T.needs_disp_band(name) and rng.random() < 0.6
            if same_band:
                nch2 = spec["nchans"]  # same band, other sampling time (a decimated copy of the observation)
            if (nch2 != spec["nchans"] or same_band) and not (T.needs_disp_band(name) and nch2 < 2):
                spec2 = {**{k: v for k, v in spec.items() if k not in ("big",)}, "nchans": nch2, "nsamps": [rng.randint(2, 12) if not same_band else max(2, min(40, sum(spec["nsamps"])))],
                         "pad": [0], "vseed": rng.randrange(1 << 16)}
                if same_band:
                    spec2["tsamp"] = float(spec.get("tsamp", 0.001)) * 2
                try:
                    p2 = dict(params) if same_band else T.gen_params(name, rng, spec2, spec2["nsamps"][0])
                    sc["earlier"] = {"files": spec2, "params": p2, "gulp": rng.randint(1, 12)}
                except Rejected:
                    continue
                break
    # state left in the output directory by a previous run of the same script: the output names already
    # exist and are LONGER than the products about to be written ("junk": arbitrary bytes under the fixed
    # names; "rerun": the same transform over the whole observation, by a reader that no longer exists)
    sc["stale"] = rng.choice([None, None, None, None, "junk", "rerun"])
    return sc


def fixup(sc):
    f = sc["files"]
    if f["nbits"] not in (1, 2, 4, 8, 16, 32) or f["nchans"] < 1 or (f["nchans"] * f["nbits"]) % 8:
        return None
    f["nsamps"] = [n for n in f["nsamps"] if n >= 1][:3]
    if not f["nsamps"] or not sc["ops"]:
        return None
    f["pad"] = (list(f.get("pad") or []) + [0, 0, 0])[: len(f["nsamps"])]
    N = sum(f["nsamps"])
    sc["start"] = max(0, min(sc["start"], N - 1))
    if sc["nsamps"] is not None:
        sc["nsamps"] = max(1, min(sc["nsamps"], N - sc["start"]))
    for o in sc["ops"]:
        if o["gulp"] is not None:
            o["gulp"] = max(1, o["gulp"])
        if "start" in o:
            o["start"] = max(0, min(o["start"], N - 1))
            if o["nsamps"] is not None:
                o["nsamps"] = max(1, min(o["nsamps"], N - o["start"]))
    for o in sc.get("pre", []):
        o["start"] = max(0, min(o["start"], N - 1))
        o["nsamps"] = max(1, min(o["nsamps"], N - o["start"]))
        o["gulp"] = max(1, o["gulp"])
    p, nch, nb = sc["params"], f["nchans"], f["nbits"]
    name = sc["name"]
    if name == "apply_channel_mask":
        p["mask"] = (list(p["mask"]) + [False] * nch)[:nch]
    if name == "extract_chans":
        p["chans"] = [c for c in dict.fromkeys(p["chans"]) if 0 <= c < nch]
        if not p["chans"]:
            return None
    if name == "extract_bands":
        cps = p["chanpersub"] or p["nchans"]
        if cps < 2 or p["nchans"] % cps or p["chanstart"] < 0 or p["chanstart"] + p["nchans"] > nch or (cps * nb) % 8:
            return None
    if name == "downsample":
        if p["tfactor"] < 1 or p["ffactor"] < 1 or nch % p["ffactor"] or ((nch // p["ffactor"]) * nb) % 8:
            return None
    if name == "subband":
        if p["nsub"] < 1 or nch % p["nsub"] or p["dm"] < 0 or nch < 2:
            return None
    sc["faults"] = [x for x in sc["faults"] if 0 <= x.get("op", -1) < len(sc["ops"])]
    return sc


from .c02 import after_list_removal  # noqa: E402,F401


def nontrivial(sc, ctx) -> bool:
    return ctx.probes.get("compared-output", 0) > 0


# ------------------------------------------------------------------ comparison of one output file
def compare_output(path, exp, ns_out, mk, ctx):
    """`mk(clause, detail)` builds the Violation.  Returns crc of the data section."""
    if not os.path.isfile(path):
        raise mk("reported-output-does-not-exist", f"{ctx.rel(path)} was reported as written; there is no such file")
    try:
        fields, hdrlen, data = filgen.read_sigproc(path)
    except filgen.HeaderError as e:
        raise mk("output-header-malformed", f"{ctx.rel(path)}: {e}") from None
    if fields.get("nbits") != exp.nbits:
        raise mk("declared-depth", f"{ctx.rel(path)} declares nbits={fields.get('nbits')} expected {exp.nbits}")
    if fields.get("nchans") != exp.nchans:
        raise mk("declared-nchans", f"{ctx.rel(path)} declares nchans={fields.get('nchans')} expected {exp.nchans}")
    want_bytes = ns_out * exp.nchans * exp.nbits // 8
    if len(data) != want_bytes:
        raise mk("sample-count", f"{ctx.rel(path)}: {len(data)} data bytes, definition has {ns_out} samples x {exp.nchans} chans x {exp.nbits} bit = {want_bytes}")
    got = filgen.unpack_model(data, exp.nbits).reshape(ns_out, exp.nchans) if ns_out else np.zeros((0, exp.nchans))
    if exp.cmp == "exact":
        want = np.ascontiguousarray(exp.data).astype(filgen.DTYPES[exp.nbits])
        if not filgen.same_bits(got, want):
            raise mk("wrong-values", f"{ctx.rel(path)} {exp.label}: " + _diff(got, want))
    elif exp.cmp == "mean":
        want = exp.data
        if exp.nbits == 32:
            bad = np.abs(got.astype(np.float64) - want) > 1e-6 * np.maximum(1.0, np.abs(want))
        else:
            bad = np.abs(got.astype(np.float64) - want) >= 1.0
        if bad.any():
            i, j = np.argwhere(bad)[0]
            raise mk("wrong-values", f"{ctx.rel(path)}: {int(bad.sum())} of {bad.size} outside the block mean, first at out-sample {i} chan {j}: got {got[i, j]} mean {want[i, j]}")
    elif exp.cmp == "zerodm":
        tol = (lambda w: 1.0 + 1e-6) if exp.nbits < 32 else (lambda w: 1e-4 * np.maximum(1.0, np.abs(w)))
        ok = False
        for want in (exp.data, exp.alt):
            if np.all(np.abs(got.astype(np.float64) - want) <= tol(want)):
                ok = True
        if not ok:
            d = np.abs(got.astype(np.float64) - exp.data)
            i, j = np.unravel_index(np.argmax(d), d.shape)
            raise mk("wrong-values", f"{ctx.rel(path)}: max |got-def| = {d.max():.3f} at sample {i} chan {j} (got {got[i, j]} def {exp.data[i, j]:.3f})")
    return zlib.crc32(data)


def _diff(a, b) -> str:
    if a.shape != b.shape:
        return f"shape {a.shape} vs {b.shape}"
    bad = np.argwhere(np.array([[a[i, j : j + 1].tobytes() != b[i, j : j + 1].tobytes() for j in range(a.shape[1])] for i in range(a.shape[0])]))
    if not len(bad):
        return "dtype differs"
    i, j = bad[0]
    return f"{len(bad)} of {a.size} differ, first at sample {i} chan {j}: got {a[i, j]!r} want {b[i, j]!r}"


def run_earlier_session(sc, ctx, sim) -> None:
    """Process another file with the same transform through its own reader, then drop every object.
    Context, not the call under test: whatever it does must not influence the scenario's own outputs."""
    e = sc["earlier"]
    d = os.path.join(ctx.root, "earlier")
    os.makedirs(d, exist_ok=True)
    fs0 = filgen.write_fileset(d, e["files"], stem="prev")
    sim.begin_op(-2, budget=1000000)
    try:
        r0 = open_reader("C07", fs0.paths)
        T.call(sc["name"], r0, d, e["params"], e["gulp"], 0, None)
        r0._file.close()
        del r0
    except Violation:
        raise
    except Exception as ex:  # noqa: BLE001
        ctx.observations["earlier-session-raised:" + type(ex).__name__] += 1
    ctx.probe("earlier-session")


STALE_NAMES = ("out_inv.fil", "out_mask.fil", "out_samps.fil", "out_ds.fil", "out.subbands", "out_zdm.fil")


def leave_stale_products(sc, ctx, sim, fs, outdir, nbytes) -> None:
    """Context, not the call under test: what an earlier run left under the names about to be written."""
    if sc["stale"] == "junk":
        for nm in STALE_NAMES:
            with open(os.path.join(outdir, nm), "wb") as fp:
                fp.write(bytes((j * 37 + 11) & 0xFF for j in range(nbytes + 13)))
    else:
        sim.begin_op(-3, budget=1000000)
        try:
            r0 = open_reader("C07", fs.paths, allow_chdir=False)
            T.call(sc["name"], r0, outdir, sc["params"], 16, 0, None)
            r0._file.close()
            del r0
        except Violation:
            raise
        except Exception as ex:  # noqa: BLE001
            ctx.observations["stale-rerun-raised:" + type(ex).__name__] += 1
    ctx.probe("output-names-held-longer-files:" + sc["stale"])


def blocks_of(ns, eff_gulp, skipback=0) -> int:
    if eff_gulp <= skipback:
        return 0
    n = (ns - skipback) // (eff_gulp - skipback)
    return n + (1 if ns - n * (eff_gulp - skipback) != 0 else 0)


# ------------------------------------------------------------------ execution
def execute(sc, ctx) -> None:
    from sigpyproc.readers import FilReader

    spec, name, params = sc["files"], sc["name"], sc["params"]
    fs = filgen.write_fileset(ctx.root, spec)
    N, nbits, nchans = fs.nsamples, spec["nbits"], spec["nchans"]
    if len(spec["nsamps"]) > 1:
        ctx.probe("multi-file")
    if nbits < 8:
        ctx.probe("sub-byte")
    if spec.get("big"):
        ctx.probe("big-blocks")
    ctx.sig += [name, f"nbits{nbits}", "multi" if len(spec["nsamps"]) > 1 else "single"]

    with SimDisk(ctx, sc["faults"]) as sim:
        reader = None if sc.get("earlier") else open_reader("C07", fs.paths)
        crcs = []
        windows = []
        kept = None
        if sc.get("earlier"):
            run_earlier_session(sc, ctx, sim)
            reader = open_reader("C07", fs.paths)  # opened AFTER the earlier session's objects are gone
        delays = None
        if name == "subband":
            delays = np.atleast_1d(np.asarray(reader.header.get_dmdelays(params["dm"])))
        if sc.get("pre"):
            # earlier, unrelated calls on the SAME reader object: the transform must not depend on them
            from .c06 import run_pre

            sim.begin_op(-1, budget=1000000)
            run_pre(reader, sc["pre"], ctx)
        for i, op in enumerate(sc["ops"]):
            gulp = op["gulp"]
            start = op.get("start", sc["start"])
            nsamps = op["nsamps"] if "start" in op else sc["nsamps"]
            ns = N - start if nsamps is None else nsamps
            X = fs.samples[start : start + ns]
            eof = "toEOF" if start + ns == N else "beforeEOF"
            if "start" in op:
                ctx.probe("second-window-on-same-reader")
            if eof == "beforeEOF":
                ctx.probe("sub-range-before-EOF")
            md = 0
            try:
                if name == "subband":
                    md = T.dedisp_domain(delays, ns)
                    if md > 0:
                        ctx.probe("subband:maxdelay>0")
                exps = T.define(name, X, fs.samples, spec, params, delays)
                if name == "remove_zerodm" and not T.in_range_for_zerodm(exps[0], nbits):
                    raise Rejected("zero-DM definition leaves the representable range")
            except Rejected:
                if i == 0:
                    raise
                continue  # the second window is outside the transform's domain
            if name == "remove_zerodm":
                ctx.probe("zerodm:in-range")
            ns_out = exps[0].data.shape[0]
            # probes from the arguments
            if gulp is None:
                ctx.probe("default-gulp")
            gnum = 16384 if gulp is None else gulp
            g_eff = gnum
            skip = 0
            if name == "downsample" and spec["mode"] == "flat":
                ctx.probe("decimation:exact-integer-means")
            if name == "downsample":
                g_eff = int(np.ceil(gnum / params["tfactor"]) * params["tfactor"])
                if g_eff != gnum:
                    ctx.probe("decimation:gulp-rounded-up")
                if min(g_eff, ns) != nchans:
                    ctx.probe("decimation:gulp!=nchans")
                if ns > g_eff and 0 < ns % g_eff < params["tfactor"]:
                    ctx.probe("decimation:remainder-block<tfactor")
            if name == "subband":
                g_eff = max(2 * md, gnum)
                skip = md
                if g_eff != gnum:
                    ctx.probe("subband:gulp-raised-to-2maxdelay")
            nblk = blocks_of(ns, min(g_eff, ns), skip)
            if nblk >= 3:
                ctx.probe(">=3-blocks")
            if name in ("extract_chans", "extract_bands"):
                nfiles_out = len(exps)
                if nfiles_out > params["batch_size"]:
                    ctx.probe("multi-batch-extract")
            if name == "extract_chans" and nbits == 8:
                ctx.probe("extract_chans:8bit-to-32bit-tim")
            outdir = os.path.join(ctx.root, f"out{i}")
            os.makedirs(outdir, exist_ok=True)
            if sc.get("stale") and i == 0:
                leave_stale_products(sc, ctx, sim, fs, outdir, N * nchans * 4 + 1024)
            sim.begin_op(i, budget=(3 if op.get("reentrant") else 1) * (16 * (nblk + 2) * (len(spec["nsamps"]) + 2) * max(1, len(exps)) + 64) + (2000 if name == "remove_zerodm" else 0) + 4 * ns)
            sim.free_space()
            fired0 = sum(ctx.faults.values())
            info = {"api": name, "params": params, "gulp": gulp, "start": start, "nsamps": ns, "N": N, "nbits": nbits,
                    "nchans": nchans, "eof": eof, "nfiles": len(spec["nsamps"]), "nblocks": nblk, "op_index": i, "pre": sc.get("pre", [])}
            raised = None
            outs = None
            alloc = None
            inner = {}
            if op.get("reentrant") and not sc["faults"]:
                def alloc(n, _inner=inner, _i=i):
                    # a callback the caller owns, in the middle of the call: the same transform on the same
                    # window through ANOTHER reader into another directory, to completion
                    if "outs" not in _inner:
                        _inner["outs"] = None
                        d2 = os.path.join(ctx.root, f"inner{_i}")
                        os.makedirs(d2, exist_ok=True)
                        rb = open_reader("C07", fs.paths)
                        _inner["outs"] = T.call(name, rb, d2, params, max(1, ns // 2), start, nsamps)
                        rb._file.close()
                    return bytearray(n)

                ctx.probe("reentrant-call-inside-allocator")
            try:
                outs = T.call(name, reader, outdir, params, gulp, start, nsamps, allocator=alloc)
            except SimLivelock as e:
                raise Violation(f"C07/{name}/livelock/{eof}", str(e), info) from None
            except Violation:
                raise
            except Exception as e:  # noqa: BLE001
                raised = e
            fault = sum(ctx.faults.values()) > fired0
            tag = f"{eof}/{'fault' if fault else 'nofault'}"
            info["fault"] = fault

            def mk(clause, detail, _tag=tag, _info=info):
                return Violation(f"C07/{name}/{clause}/{_tag}", detail, _info)

            ctx.sig.append(f"{name}:{'raise' if raised is not None else 'ok'}:{tag}")
            if raised is not None:
                ctx.log("call", i, name, gulp, type(raised).__name__)
                if not fault:
                    raise mk("raised", repr(raised)[:300])
                ctx.probe("W3-raised" if isinstance(raised, OSError) and getattr(raised, "errno", 0) == 28 else "R-fault-raised")
                continue
            # returned normally: outputs must be complete and exact (also in the fault configuration)
            need = T.n_outputs_required(name, params, spec)
            if need < 0:
                need = len(exps)
            if len(outs) < need or len(outs) > len(exps):
                raise mk("output-count", f"{len(outs)} files reported, definition has {need}..{len(exps)}")
            if len(set(outs)) != len(outs):
                raise mk("output-names-collide", str([ctx.rel(o) for o in outs]))
            if inner.get("outs"):
                for path, exp in zip(inner["outs"], exps):
                    compare_output(path, exp, ns_out, lambda c, d: mk("inner-call-" + c, d), ctx)
            these = []
            for path, exp in zip(outs, exps):
                these.append(compare_output(path, exp, ns_out, mk, ctx))
                ctx.probe("compared-output")
                # the library's own reader must infer the defined sample count
                hdr_ns = FilReader(path).header.nsamples if exp.nbits in (1, 2, 4, 8, 16, 32) else None
                if hdr_ns != ns_out:
                    raise mk("reader-infers-other-count", f"{ctx.rel(path)}: FilReader says {hdr_ns}, definition {ns_out}")
            ctx.probe(f"ok:{name}")
            ctx.log("call", i, name, gulp, start, ns, these)
            if kept is not None:
                # the products of the FIRST call must still be what they were (another call on the reader wrote elsewhere)
                for pth, crc in kept:
                    with open(pth, "rb") as fp:
                        if zlib.crc32(fp.read()) != crc:
                            raise mk("earlier-product-changed-by-a-later-call", ctx.rel(pth))
                ctx.probe("earlier-products-rechecked")
            else:
                kept = []
                for pth in outs:
                    with open(pth, "rb") as fp:
                        kept.append((pth, zlib.crc32(fp.read())))
            crcs.append(these)
            windows.append((start, ns))
        if len(crcs) >= 2 and windows[0] == windows[1]:
            ctx.probe("two-gulps-compared")
            if name in ("invert_freq", "apply_channel_mask", "extract_samps", "extract_chans", "extract_bands", "subband") and crcs[0] != crcs[1]:
                raise Violation(f"C07/{name}/gulp-dependence", "outputs differ between two gulps", {"api": name, "params": params})
        reader._file.close()
