"""C18 - PSRFITS reads are position-independent and agree with the SIGPROC path."""
from __future__ import annotations

import os
import warnings
import zlib

import numpy as np

from sim import filgen
from sim.core import nint, Rejected, Violation

from .c01 import PlanOracle

ID = "C18"
VARY_KNOBS = True  # module-level tuning constants of the library are lowered in some runs (sim.core.lower_tuning_constants)
VARY_ARGFORM = True  # integer call arguments also arrive as numpy integer scalars
GUARD_KERNELS = True
SHRINK_LISTS = ("ops",)
SHRINK_MIN = {"nsblk": 4, "nsub": 1, "nchans": 1, "gulp": 1, "nsamps": 1}
SHRINK_SIMPLE = {"knobs": None, "earlier_same_path": False, "gzip": False, "argform": "int", "bw_cards": 0, "odd_cards": 0}
LAYOUTS = [("AABBCRCI", 4), ("AABBCRCI", 4), ("STOKE", 4), ("STOKE", 4), ("AABB", 2), ("INTEN", 1)]


def warm() -> None:
    import sigpyproc.readers  # noqa: F401
    import props.c06 as c06

    c06.warm()


def generate(rng, tier) -> dict:
    nbits = rng.choice([8, 8, 4])
    nsblk = rng.choice([4, 8, 16, 32, rng.randrange(4, 33, 2)])
    nsub = rng.choice([1, 2, 2, 3, 4, 5])
    nchans = rng.choice([1, 2, 3, 4, 8]) if nbits == 8 else rng.choice([2, 4, 8])  # 1 channel: unreadable on the pinned tree (no channel spacing), excluded like npol 1/2
    pol, npol = rng.choice(LAYOUTS)
    N = nsblk * nsub
    ops = []
    for _ in range(rng.randint(1, 10)):
        r = rng.random()
        if r < 0.6:
            st = rng.choice([0, nsblk, nsblk - 1, nsblk + 1, rng.randint(0, N - 1), rng.randint(0, N - 1)])
            n = rng.choice([1, nsblk, nsblk + 1, 2 * nsblk + 1, rng.randint(1, N), N - st, N - st + 1])
            ops.append({"op": "read_block", "start": st, "nsamps": max(1, n)})
        elif r < 0.85:
            st = rng.choice([0, 0, rng.randint(0, N - 1)])
            n_eff = N - st
            ns = rng.choice([None, None, rng.randint(1, n_eff)])
            n_eff = n_eff if ns is None else ns
            g = max(1, rng.choice([1, 3, nsblk, nsblk - 1, nsblk + 1, rng.randint(1, n_eff + 2)]))
            sb = rng.choice([0, 0, rng.randint(0, max(0, min(g, n_eff) // 2))])
            ops.append({"op": "read_plan", "gulp": g, "start": st, "nsamps": ns, "skipback": sb})
        else:
            k = rng.choice(["collapse", "bandpass", "collapse", "bandpass", "dedisperse", "read_chan", "compute_stats", "fold"])
            o = {"op": k, "gulp": rng.choice([3, nsblk, nsblk + 1, N, rng.randint(1, N)])}
            if k == "dedisperse":
                o["dmfrac"] = rng.choice([0.0, 0.1, 0.3])
            elif k == "read_chan":
                o["ichan"] = rng.randrange(nchans)
            elif k == "fold":
                o.update({"nbins": rng.choice([2, 4, 8]), "nints": rng.choice([1, 2]), "nbands": rng.choice([1, 2]) if nchans >= 2 else 1,
                          "pfac": rng.choice([1.0, 1.37, 2.5]), "dmfrac": rng.choice([0.0, 0.0, 0.1])})
            ops.append(o)
    return {"nbits": nbits, "nsblk": nsblk, "nsub": nsub, "nchans": nchans, "pol": pol, "npol": npol,
            "ascending": rng.random() < 0.4, "scl": rng.random() < 0.6, "zero_off": rng.choice([0.0, 0.0, 2.0]),
            "dseed": rng.randrange(1 << 30), "ops": ops, "earlier_same_path": rng.random() < 0.25, "gzip": rng.random() < 0.2,
            # header cards written by other software: the SIGN of CHAN_BW (bit 0) / OBSBW (bit 1) does not follow the
            # order of the DAT_FREQ table (a width stored as a positive number whatever the band sense)
            "bw_cards": rng.choice([0, 0, 0, 1, 2, 3]), "per_row": rng.random() < 0.5, "odd_cards": rng.choice([0, 0, 1, 2, 3, 4, 5, 6])}


def fixup(sc):
    sc["nsub"] = max(1, sc["nsub"])
    sc["nsblk"] = max(4, sc["nsblk"] // 2 * 2)
    sc["nchans"] = max(1, sc["nchans"])
    if sc["nbits"] not in (4, 8):
        sc["nbits"] = 8
    if sc["nbits"] == 4 and sc["nchans"] % 2:
        sc["nchans"] += 1
    N = sc["nsblk"] * sc["nsub"]
    for o in sc["ops"]:
        if "gulp" in o:
            o["gulp"] = max(1, o["gulp"])
        if o["op"] == "read_block":
            o["nsamps"] = max(1, o["nsamps"])
        if o["op"] == "read_plan":
            o["start"] = max(0, min(o["start"], N - 1))
            if o["nsamps"] is not None:
                o["nsamps"] = max(1, min(o["nsamps"], N - o["start"]))
            o["skipback"] = max(0, o["skipback"])
    return sc


def nontrivial(sc, ctx) -> bool:
    return ctx.probes.get("unaligned-read", 0) > 0 and ctx.probes.get("compared-read", 0) > 0


# ------------------------------------------------------------------ the PSRFITS writer (harness side)
def pack4(flat):
    a = flat.reshape(-1, 2).astype(np.uint8)
    return ((a[:, 0] << 4) | a[:, 1]).astype(np.uint8)


def write_psrfits(path, sc):
    from astropy.io import fits

    r = np.random.default_rng(int(sc["dseed"]))
    nbits, nsblk, nsub, nchans, npol, pol = sc["nbits"], sc["nsblk"], sc["nsub"], sc["nchans"], sc["npol"], sc["pol"]
    N = nsblk * nsub
    top = 16 if nbits == 4 else 200
    if sc.get("gzip"):
        top = 2  # low-entropy samples: the compressed file is much smaller than the table it holds
    d = r.integers(0, top, size=(N, npol, nchans)).astype(np.uint8)
    foff = 1.0 if sc["ascending"] else -1.0
    fch1 = 1400.0 if sc["ascending"] else 1400.0 + (nchans - 1)
    freqs = (fch1 + foff * np.arange(nchans)).astype(np.float64)
    rows = nsub if sc.get("per_row") else 1  # scales / offsets / weights are per sub-integration ROW in PSRFITS
    if sc["scl"]:
        scl = r.choice([0.25, 0.5, 1.0, 2.0], size=(rows, npol * nchans)).astype(np.float32)
        offs = r.integers(-4, 5, size=(rows, npol * nchans)).astype(np.float32)
        wts = r.choice([0.0, 0.5, 1.0, 1.0], size=(rows, nchans)).astype(np.float32)
    else:
        scl, offs, wts = np.ones((rows, npol * nchans), np.float32), np.zeros((rows, npol * nchans), np.float32), np.ones((rows, nchans), np.float32)
    scl, offs, wts = (np.repeat(a, nsub // rows, axis=0) for a in (scl, offs, wts))  # one line per row
    pri = fits.PrimaryHDU()
    h = pri.header
    for k, v in dict(FITSTYPE="PSRFITS", OBS_MODE="SEARCH", TELESCOP="Parkes", ANT_X=-4554231.5, ANT_Y=2816759.1, ANT_Z=-3454036.3,
                     FRONTEND="SIM", NRCVR=1, FD_POLN="LIN", FD_HAND=1, FD_SANG=0.0, FD_XYPH=0.0, FD_MODE="FA", FA_REQ=0.0,
                     BACKEND="SIMBE", BE_PHASE=1, BE_DCC=0, BE_DELAY=0.0, TCYCLE=0.0, BECONFIG="none", OBSERVER="sim", PROJID="P000",
                     OBSFREQ=float(freqs.mean()), OBSBW=foff * nchans * (-1 if int(sc.get("bw_cards") or 0) & 2 else 1), OBSNCHAN=nchans, SRC_NAME="J0000+0000", RA="00:00:00.0",
                     DEC="-00:30:00.0", STT_IMJD=58000, STT_SMJD=100, STT_OFFS=0.25).items():
        h[k] = v
    h["DATE-OBS"] = "2020-01-01T00:00:00"
    # optional primary cards as other backends write them: absent, numeric, the '*' placeholder of an undefined value,
    # a quoted number (legal PSRFITS all the same; the file reads in full either way)
    cards = int(sc.get("odd_cards") or 0)
    if cards:
        odd = {1: "*", 2: "7", 3: 3, 4: "", 5: 56.712}
        for j, key in enumerate(("IBEAM", "CHAN_DM", "NBEAM", "SCANLEN", "BMAJ", "BMIN", "BPA", "PNT_ID")):
            v = odd.get((cards + 3 * j) % 7)
            if v is not None:
                h[key] = v
    bitfact = 2 if nbits == 4 else 1
    dd = d.reshape(nsub, nsblk, npol, nchans)
    darr = pack4(np.ascontiguousarray(dd).ravel()).reshape(nsub, -1) if nbits == 4 else dd.reshape(nsub, -1)
    # TPF order; for 4 bit the fastest axis (channels) is the packed one
    dim = f"({nchans},{npol},{nsblk // bitfact})"  # the convention of 4-bit search-mode files (cf. tests/data/parkes_4bit.sf)
    tsamp = 0.001
    cols = [fits.Column(name="TSUBINT", format="1D", array=np.full(nsub, nsblk * tsamp)),
            fits.Column(name="OFFS_SUB", format="1D", array=(np.arange(nsub) + 0.5) * nsblk * tsamp),
            fits.Column(name="DAT_FREQ", format=f"{nchans}D", array=np.tile(freqs, (nsub, 1))),
            fits.Column(name="DAT_WTS", format=f"{nchans}E", array=wts),
            fits.Column(name="DAT_OFFS", format=f"{nchans * npol}E", array=offs),
            fits.Column(name="DAT_SCL", format=f"{nchans * npol}E", array=scl),
            fits.Column(name="DATA", format=f"{darr.shape[1]}B", dim=dim, array=darr)]
    tb = fits.BinTableHDU.from_columns(cols, name="SUBINT")
    for k, v in dict(NPOL=npol, POL_TYPE=pol, TBIN=tsamp, NBITS=nbits, NCHAN=nchans, NSBLK=nsblk, CHAN_BW=foff * (-1 if int(sc.get("bw_cards") or 0) & 1 else 1), NSUBOFFS=0,
                     SIGNINT=0, ZERO_OFF=float(sc["zero_off"])).items():
        tb.header[k] = v
    with warnings.catch_warnings():
        warnings.simplefilter("ignore")
        fits.HDUList([pri, tb]).writeto(path, overwrite=True)
    # model of the calibrated, polarisation-selected samples, channels in DESCENDING frequency
    per = lambda a, shape: np.repeat(a.reshape((nsub,) + shape), nsblk, axis=0)  # noqa: E731 - row values, per sample
    x = (d.astype(np.float64) - sc["zero_off"]) * per(scl, (npol, nchans)) + per(offs, (npol, nchans))
    x = x * per(wts, (1, nchans))
    if pol == "AABBCRCI":
        m = (x[:, 0, :] + x[:, 1, :]) / np.sqrt(2.0)
    else:
        m = x[:, 0, :]
    if sc["ascending"]:
        m = m[:, ::-1]
    return m, {"fch1": float(freqs.max()), "foff": -1.0, "tsamp": tsamp, "N": N}


class _FS:
    pass


def execute(sc, ctx) -> None:
    from sigpyproc.readers import FilReader, PFITSReader

    path = os.path.join(ctx.root, "in.sf")
    if sc.get("earlier_same_path"):
        # the path held ANOTHER observation before (same geometry, other channel order / zero level / data),
        # which was opened, read and dropped in this process: nothing of it may survive in the library
        prev = {**sc, "ascending": not sc["ascending"], "zero_off": 3.5 if sc["zero_off"] == 0 else 0.0,
                "dseed": int(sc["dseed"]) + 1, "scl": True}
        write_psrfits(path, prev)
        with warnings.catch_warnings():
            warnings.simplefilter("ignore")
            try:
                r0 = PFITSReader(path)
                r0.read_block(0, sc["nsblk"])
                r0._fitsfile._fits.close()
                del r0
            except Exception as e:  # noqa: BLE001 - context only
                ctx.observations["earlier-file-unreadable:" + type(e).__name__] += 1
        os.unlink(path)
        ctx.probe("earlier-file-at-the-same-path")
    model, meta = write_psrfits(path, sc)
    if sc.get("gzip"):
        # the same observation stored gzip-compressed (astropy opens .gz transparently)
        import gzip
        import shutil

        with open(path, "rb") as fi, gzip.open(path + ".gz", "wb") as fo:
            shutil.copyfileobj(fi, fo)
        os.unlink(path)
        path = path + ".gz"
        ctx.probe("gzip-compressed-file")
    N, nchans, nsblk = meta["N"], sc["nchans"], sc["nsblk"]
    info0 = {"nsblk": nsblk, "nsub": sc["nsub"], "nchans": nchans, "nbits": sc["nbits"], "pol": sc["pol"], "ascending": sc["ascending"]}
    ctx.sig += [sc["pol"], f"nbits{sc['nbits']}", "asc" if sc["ascending"] else "desc"]
    if sc["ascending"]:
        ctx.probe("ascending-band")
    if sc.get("bw_cards"):
        ctx.probe("bandwidth-card-sign-differs-from-the-frequency-table")
    if sc.get("per_row") and sc["scl"] and sc["nsub"] > 1:
        ctx.probe("scales-offsets-weights-differ-from-row-to-row")
    if sc["nsub"] == 1:
        ctx.probe("single-row-file")
    if sc["nbits"] == 4:
        ctx.probe("4-bit")
    if sc["scl"]:
        ctx.probe("scales-offsets-weights")
    with warnings.catch_warnings():
        warnings.simplefilter("ignore")
        try:
            reader = PFITSReader(path)
            whole = np.asarray(reader.read_block(0, N).data)
        except Exception as e:  # noqa: BLE001 - "a file that the reader opens and can read in full"
            if sc["npol"] == 4 and sc["nchans"] >= 2 and sc["nbits"] in (4, 8):
                # four-polarisation layouts ARE readable by this reader: failing on one is not an excluded
                # layout but the reader refusing (or mis-sizing) a file it is documented to read
                raise Violation("C18/open/reader-cannot-read-a-supported-layout", repr(e)[:300],
                                {"api": "PFITSReader", "pol": sc["pol"], "nbits": sc["nbits"], "gzip": bool(sc.get("gzip"))}) from None
            ctx.observations["layout-excluded:" + sc["pol"]] += 1
            raise Rejected(f"layout {sc['pol']} cannot be read in full: {e!r}"[:120]) from None
        hdr = reader.header

        def mk(api, clause, detail, extra=None):
            return Violation(f"C18/{api}/{clause}", detail, {**info0, "api": api, **(extra or {})})

        # ---- whole-file read vs the calibration model, channel order
        if whole.shape != (nchans, N):
            raise mk("read_block", "whole-file-shape", f"{whole.shape} != {(nchans, N)}")
        W = np.ascontiguousarray(whole.T)  # (N, nchans)
        if not np.allclose(W.astype(np.float64), model, rtol=1e-5, atol=1e-5):
            bad = np.argwhere(~np.isclose(W.astype(np.float64), model, rtol=1e-5, atol=1e-5))[0]
            flipped = np.allclose(W.astype(np.float64)[:, ::-1], model, rtol=1e-5, atol=1e-5)
            raise mk("read_block", "whole-file-values" + ("-channel-order" if flipped else ""),
                     f"sample {bad[0]} chan {bad[1]}: got {W[bad[0], bad[1]]} want {model[bad[0], bad[1]]}")
        # ---- header: plain numbers, same units, consistent with the data
        for key, want in (("fch1", meta["fch1"]), ("foff", meta["foff"]), ("tsamp", meta["tsamp"]), ("nsamples", N), ("nchans", nchans), ("nbits", sc["nbits"])):
            v = getattr(hdr, key)
            if not isinstance(v, (int, float, np.integer, np.floating)) or type(v).__module__.startswith("astropy"):
                raise mk("header", f"not-a-plain-number-{key}", f"{key} = {v!r} ({type(v).__name__})")
            if abs(float(v) - want) > 1e-9 * max(1.0, abs(want)):
                raise mk("header", f"inconsistent-{key}", f"{key} = {v!r}, the data say {want}")
        # every field the Header declares as a number is a plain number (not a card's placeholder string, not None, not a Quantity)
        try:
            import attrs as _attrs

            for fld in _attrs.fields(type(hdr)):
                ann = str(fld.type)
                if ann in ("int", "float", "<class 'int'>", "<class 'float'>"):
                    v = getattr(hdr, fld.name)
                    if isinstance(v, bool) or not isinstance(v, (int, float, np.integer, np.floating)) or type(v).__module__.startswith("astropy"):
                        raise mk("header", f"not-a-plain-number-{fld.name}", f"{fld.name} = {v!r} ({type(v).__name__})")
            ctx.probe("all-numeric-header-fields-checked")
        except Violation:
            raise
        except Exception as e:  # noqa: BLE001 - a Header that is no attrs class: nothing to enumerate
            ctx.observations["header-fields-not-enumerable:" + type(e).__name__] += 1
        if sc.get("odd_cards"):
            ctx.probe("primary-cards-with-placeholder-values")
        fs = _FS()
        fs.samples, fs.spec, fs.nsamples = W, {"nchans": nchans, "nsamps": [nsblk] * sc["nsub"]}, N
        twin = None
        held = []  # blocks returned earlier and still held by the caller: they must not change later

        def recheck_held(i_now):
            for (arr, st0, n0, i0) in held:
                if not filgen.same_bits(np.ascontiguousarray(np.asarray(arr).T).astype(W.dtype), W[st0 : st0 + n0]):
                    raise Violation("C18/read_block/held-block-changed-by-a-later-read",
                                    f"the block returned by op {i0} (read_block({st0},{n0})) no longer holds its samples after op {i_now}",
                                    {**info0, "api": "read_block", "start": st0, "nsamps": n0})
            if held:
                ctx.probe("held-blocks-rechecked")

        for i, op in enumerate(sc["ops"]):
            kind = op["op"]
            recheck_held(i)
            info = {**info0, "api": kind, **{k: v for k, v in op.items() if k != "op"}, "op_index": i, "N": N}
            if kind == "read_block":
                st, n = op["start"], op["nsamps"]
                in_range = st >= 0 and st + n <= N
                try:
                    result_block = reader.read_block(nint(st), nint(n))
                    got = np.asarray(result_block.data)
                    raised = None
                except Exception as e:  # noqa: BLE001
                    raised = e
                aligned = st % nsblk == 0
                crossed = (st + n - 1) // nsblk - st // nsblk if n > 0 else 0
                tag = ("aligned" if aligned else "unaligned") + f"/cross{min(crossed, 2)}"
                ctx.log("read_block", i, st, n, type(raised).__name__ if raised else zlib.crc32(np.ascontiguousarray(got).tobytes()))
                if not in_range:
                    if not isinstance(raised, ValueError):
                        raise Violation(f"C18/read_block/out-of-range-not-ValueError/{tag}", repr(raised), info)
                    ctx.probe("out-of-range-raises")
                    continue
                if raised is not None:
                    raise Violation(f"C18/read_block/in-range-raised/{tag}", repr(raised)[:300], info)
                if got.shape != (nchans, n):
                    raise Violation(f"C18/read_block/shape/{tag}", f"{got.shape} != {(nchans, n)}", info)
                if not filgen.same_bits(np.ascontiguousarray(got.T).astype(W.dtype), W[st : st + n]):
                    raise Violation(f"C18/read_block/differs-from-whole-file-read/{tag}", "", info)
                ctx.probe("compared-read")
                held.append((result_block.data, st, n, i))
                if not aligned:
                    ctx.probe("unaligned-read")
                if crossed == 1:
                    ctx.probe("crosses-one-boundary")
                if crossed >= 2:
                    ctx.probe("crosses-two-boundaries")
            elif kind == "read_plan":
                g, st, ns, sb = op["gulp"], op["start"], op["nsamps"], op["skipback"]
                n_eff = N - st if ns is None else ns
                eff = min(g, n_eff)
                if sb >= eff:
                    continue
                if sb * 2 > eff:
                    continue  # only plans the statement guarantees (skipback <= gulp/2)
                if g % nsblk and nsblk % g:
                    ctx.probe("plan-gulp-not-dividing-NSBLK")
                planop = {"gulp": g, "start": st, "nsamps": ns, "skipback": sb}
                orc = PlanOracle(ctx, fs, planop, "pfits", info)
                orc.viol = lambda clause, detail="", _i=info: Violation(f"C18/read_plan/{clause}", detail, _i)
                try:
                    for item in reader.read_plan(gulp=nint(g), start=nint(st), nsamps=nint(ns), skipback=nint(sb), quiet=True):
                        n_r, ii, arr = item
                        orc.block((n_r, ii, np.asarray(arr).astype(W.dtype)))
                    orc.exhausted()
                except Violation:
                    raise
                except Exception as e:  # noqa: BLE001
                    raise Violation("C18/read_plan/raised", repr(e)[:300], info) from None
                ctx.probe("read_plan-compared")
                ctx.probe("compared-read")
            else:
                if twin is None:
                    spec = {"nbits": 32, "nchans": nchans, "nsamps": [N], "fch1": meta["fch1"], "foff": meta["foff"], "tsamp": meta["tsamp"]}
                    twin = write_twin(ctx.root, spec, W)
                from sim import transforms as T

                unit = float(T.ref_delays(nchans, 1.0, meta["fch1"], meta["foff"], meta["tsamp"]).max()) if nchans > 1 else 0.0
                dm = round(op.get("dmfrac", 0.0) * (N / 4) / unit, 4) if unit > 0 else 0.0

                def reduce(rd, _op=op, _dm=dm):
                    kw = {"gulp": nint(_op["gulp"]), "quiet": True}
                    if kind in ("collapse", "bandpass"):
                        return np.asarray(getattr(rd, kind)(**kw).data)
                    if kind == "dedisperse":
                        return np.asarray(rd.dedisperse(_dm, **kw).data)
                    if kind == "read_chan":
                        return np.asarray(rd.read_chan(_op["ichan"], **kw).data)
                    if kind == "compute_stats":
                        rd.compute_stats(**kw)
                        st = rd.chan_stats
                        return np.concatenate([np.asarray(x, dtype=np.float64).ravel() for x in (st.mean, st.var, st.minima, st.maxima, st.skew)])
                    cube = rd.fold(meta["tsamp"] * _op["nbins"] * _op["pfac"], _dm, nbins=_op["nbins"], nints=_op["nints"], nbands=min(_op["nbands"], nchans), **kw)
                    return np.asarray(cube.data, dtype=np.float64).ravel()

                twin_exc = None
                try:
                    b = reduce(FilReader(twin))
                except Violation:
                    raise
                except Exception as e:  # noqa: BLE001 - the SIGPROC path decides whether the arguments are acceptable
                    twin_exc = e
                try:
                    a = reduce(reader)
                except Violation:
                    raise
                except Exception as e:  # noqa: BLE001
                    if twin_exc is not None and type(e) is type(twin_exc):
                        ctx.observations[f"{kind}-refused-on-both-paths:{type(e).__name__}"] += 1
                        continue
                    raise Violation(f"C18/{kind}/raised", repr(e)[:300], info) from None
                if twin_exc is not None:
                    ctx.observations[f"{kind}-refused-on-the-sigproc-path-only:{type(twin_exc).__name__}"] += 1
                    continue
                ctx.probe("twin-compared:" + kind)
                if a.shape != b.shape or not np.allclose(a, b, rtol=1e-5, atol=1e-4, equal_nan=True):
                    raise Violation(f"C18/{kind}/differs-from-sigproc-twin", f"{a[:4].tolist()} vs {b[:4].tolist()}", info)
                ctx.probe("twin-compared")
                ctx.log(kind, i, op["gulp"], zlib.crc32(np.ascontiguousarray(b).tobytes()))
        recheck_held(len(sc["ops"]))
        try:
            reader._fitsfile._fits.close()
        except Exception:  # noqa: BLE001,S110
            pass


def write_twin(root, spec, W):
    hdr = filgen.encode_header(filgen.header_fields(spec, 0, 58000.0))
    path = os.path.join(root, "twin.fil")
    with open(path, "wb") as fp:
        fp.write(hdr)
        fp.write(np.ascontiguousarray(W, dtype="<f4").tobytes())
    return path
