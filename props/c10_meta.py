"""C10 static metadata."""
LEVEL = "exploration"
QUICK_RUNS = 16000
THOROUGH_BUDGET_S = 600
# tolerances: max normalised error seen on the unchanged tree over 8e4 calibration scenarios, x20
# (see DESIGN.md C10).  error measures are defined in props/c10.py:errors().
TOL = {"mean": 12.0, "var": 3e-3, "skew": 4e-3, "kurt": 8e-3}
RULE = (
    "seeded histories: a stream of n<=400 samples x <=6 channels (families: constant, 1-bit, small ints, gaussian with "
    "|mean|/sigma up to 1e3, heavy-tailed, one constant channel among varying ones, a level step of several sigma at a random sample, skewed data at amplitudes 3e-6..1e5) is pushed into ChannelStats (a) whole, "
    "(b) in a generated composition of n into chunks (all-ones, one huge + ones, geometric, random), (c) split at k between "
    "two accumulators (each with its own chunking) that are added in either order; count/min/max must be identical across "
    "all and equal to the truth, mean/var/skew/kurtosis within stated tolerances of the two-pass float64 values, constant "
    "channels give var = skew = 0 exactly, nothing NaN/inf. In-memory: no I/O fault exists and none is invented. "
    "Non-trivial = n >= 2 and a partition with >= 2 chunks or a merge; distinct = distinct event digests among those."
)
PROBES = ["single-sample-chunks", "merge-k=1", "merge-k=n-1", "sign-change-of-count-difference", "1-bit-data",
          "constant-channel", "mode:basic", "mode:full", "order:ba", "huge-mean", "tiny-amplitude", "merge-repeated", "strided-chunk", "merge-by-augmented-assignment"]
COMPONENTS = {
    "real": ["sigpyproc.core.stats.ChannelStats.push_data/__add__ and its derived properties",
             "kernels.compute_online_moments(_basic)/add_online_moments (compiled, 1 thread)"],
    "simulated": ["the delivery of the stream: chunk partition, split point, merge order"],
    "stubbed": [],
}
ASSUMPTIONS = [
    "tolerances (normalised, see props/c10.py:errors): mean 12 x [2^-23 sqrt(n) (|mean|+sigma)], var 3e-3 relative, skew 4e-3 and kurtosis 8e-3 of (1+|value|) = about 20x the worst error observed over 8e4 calibration scenarios on the unchanged tree (0.53, 1.3e-4, 1.8e-4, 3.1e-4), so a different-but-correct summation order cannot trip them",
    "cross-partition agreement is asserted with the same tolerance, not bitwise (the statement does not promise bitwise)",
    "skew/kurtosis compared only when n >= 8 and the channel is not constant; kurtosis of a constant channel is not constrained",
]

# dimensions added in seeded rounds 6 and 7
PROBES = list(PROBES) + ["merged-accumulator-fed-the-rest-of-the-stream", "chunks-handed-over-in-one-reused-buffer"]

# dimensions added in seeded round 9
PROBES = list(PROBES) + ["tree-merge:sum-of-sums", "tree-merge:never-pushed-accumulator", "tree-merge:3+parts", "tree-merge:4+parts"]
RULE = RULE + (" Round 9: half of the scenarios with n >= 3 also split the stream over 3-8 accumulators and add them pairwise in a generated bracketing (left fold, right fold, "
               "balanced tree, random; operands optionally flipped; 15% with one accumulator that never received a sample); the result is held against the same two-pass truth.")

# dimensions added in seeded round 10
ASSUMPTIONS = list(ASSUMPTIONS) + ["counts are compared in float64 (a count kept in a narrower float must not lend its precision to the comparison)"]
