"""C01 static metadata."""
LEVEL = "exploration"
QUICK_RUNS = 16000
THOROUGH_BUDGET_S = 600
RULE = (
    "seeded histories of 1-4 read_plan(gulp,start,nsamps,skipback) iterations on one FilReader over 1-3 "
    "harness-written SIGPROC files (all six depths; splits with 1-sample files and boundaries inside blocks and "
    "overlaps; 3% of runs (10% thorough) use 600-3000 samples x 64-1024 channels so that blocks span many kB); consumer kinds plain / poison-after-copy (K1) / in-place channel overwrite (K2) / abandon at block j "
    "(K3) / second reader interleaved (K4); allocator kinds A1-A5; fault runs add R1 short readinto, R2 EIO, "
    "R3 readinto->None, R4 last file truncated underneath. Non-trivial = at least one yielded block was compared "
    "with the array model; distinct = distinct event-log digests among those."
)
PROBES = [
    "lastread<skipback-correction", "gulp>nsamps", "block-spans-file-boundary", "block-spans-two-boundaries",
    "partial-last-block-before-EOF", "start>0", "sub-byte", "skipback-mid-regime", "skipback-low-regime",
    "overlap-only-block", "K1", "K2", "K3-abandon-then-plan", "K4", "A1", "A2", "A3", "A4", "A5",
    "must-reject", "fault-inside-plan:R1", "fault-inside-plan:R2", "fault-inside-plan:R3", "fault-inside-plan:R4",
    "plan-after-fault-exact", ">=3-blocks", "nsamps=0", "big-blocks", "read_block-between-plans", "held-block-rechecked",
]
COMPONENTS = {
    "real": ["sigpyproc.readers.FilReader.read_plan", "sigpyproc.io.fileio.FileReader.creadinto/seek/eos",
             "sigpyproc.io.fileio.allocate_buffer", "sigpyproc.io.bits.unpack + numba kernels",
             "sigpyproc.io.sigproc.parse_header_multi (real, fault-free)"],
    "simulated": ["io.FileIO -> SimFileIO (readinto events and faults)", "consumer of the generator",
                  "allocator passed to read_plan", "truncation of the last input file underneath the open reader",
                  "input files (harness encoder)"],
    "stubbed": [],
}
ASSUMPTIONS = [
    "mid-regime plans (eff/2 < skipback < eff) may be rejected up-front or honoured; a ValueError after a yield is a violation",
    "a later block consisting only of overlap (n == skipback) is legal",
    "fault configuration asserts exact-or-raises per block; fault-free configuration asserts exact equality and exhaustion at nsamps",
    "dtype of yielded arrays is compared only through values (bit-exact when the dtype is the file dtype)",
]

# dimensions added in seeded rounds 6 and 7
PROBES = list(PROBES) + ["plan-made-before-the-previous-one-was-consumed", "read_block-between-making-and-iterating-a-plan", "integer-arguments-as-numpy-scalars"]

# dimensions added in seeded round 9
PROBES = list(PROBES) + ["orphan:plan-outlives-its-reader", "orphan:copy-of-the-reader-dropped", "multi-gigabyte-sparse-stream"]
RULE = RULE + (" Round 9: 12% of plans are made on a reader that nothing but the plan refers to (or after a shallow copy of the reader was dropped); 2% of runs place short plans "
               "on multi-gigabyte SPARSE file sets (byte offsets beyond 2^31 / 2^32; functional model); header keys in another order / optional keys in a third of the sets; "
               "observations reached through symbolic links; library tuning constants lowered in a quarter of the runs.")

# dimensions added in seeded round 10
PROBES = list(PROBES) + ["K5:every-next-in-a-new-thread", "K5:first-here-rest-in-one-worker", "K5:made-in-a-worker-consumed-here"]
RULE = RULE + (" Round 10: consumer K5 - 8% of plans are handed from thread to thread (each next() in a new thread / first block here, the rest in one worker / made in a worker, "
               "consumed here), every call joined before the next: no concurrency, only the identity of the calling thread varies. A fifth of the small file sets first hold an "
               "earlier recording of the same byte size with a longer header at the same paths (opened, read, dropped).")

# dimensions added in seeded round 11
RULE = RULE + " Round 11: a quarter of the large sets are cut into (almost) equal files of 100-140 thousand samples whose lengths differ by 0-2 samples; 12% of plans start within three samples of a file boundary."
