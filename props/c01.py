"""C01 - gulped reading delivers every requested sample exactly once, in order."""
from __future__ import annotations

import array
import mmap
import os
import zlib

import numpy as np

from sim import filgen
from sim.core import nint, open_reader, SimLivelock, Violation
from sim.disk import SimDisk

from .c02 import after_list_removal, gen_big_files, gen_files, warm  # noqa: F401

ID = "C01"
VARY_KNOBS = True  # module-level tuning constants of the library are lowered in some runs (sim.core.lower_tuning_constants)
VARY_ARGFORM = True  # integer call arguments also arrive as numpy integer scalars
SHRINK_LISTS = ("ops", "faults", ("files", "nsamps"))
SHRINK_MIN = {"nchans": 1, "nbits": 1, "gulp": 1}
SHRINK_SIMPLE = {"knobs": None, "consumer": "plain", "allocator": None, "k4": None, "abandon_at": None, "argform": "int", "peek": None, "made_early": None, "orphan": None, "threads": None}


# ------------------------------------------------------------------ generation
def generate_huge(rng) -> dict:
    """Plans on a stream of several GiB (sparse on the simulated disk): short ranges placed where the byte offset
    passes 2^31 / 2^32 and where a file of the set starts beyond them."""
    from .c02 import generate_huge as g02

    base = g02(rng)
    files = base["files"]
    nch = files["nchans"]
    N = sum(files["nsamps"])
    hot = sorted({(a + b) // 2 // nch for a, b in files["windows"]})
    ops = []
    for _ in range(rng.choice([1, 1, 2, 3])):
        h = rng.choice(hot)
        ns = rng.randint(1, max(1, 150 // nch))
        st = max(0, min(N - 1, h - rng.randint(0, ns)))
        ns = max(1, min(ns, N - st))
        gulp = rng.choice([1, 2, 3, rng.randint(1, ns), ns, ns + 2])
        eff = min(gulp, ns)
        sb = rng.choice([0, 0, rng.randint(0, max(0, eff // 2)), rng.randint(0, max(0, eff - 1))])
        ops.append({"op": "plan", "gulp": gulp, "start": st, "nsamps": None if (st + ns == N and rng.random() < 0.5) else ns, "skipback": sb,
                    "consumer": rng.choice(["plain", "K1"]), "allocator": None, "abandon_at": None, "k4": None})
        if rng.random() < 0.3:
            st2 = max(0, min(N - 1, rng.choice(hot) - rng.randint(0, 8)))
            ops.append({"op": "read_block", "start": st2, "nsamps": max(1, min(rng.randint(1, 12), N - st2))})
    return {"files": files, "ops": ops, "faults": [], "huge": True}


def generate(rng, tier) -> dict:
    if rng.random() < 0.02:
        return generate_huge(rng)
    big = rng.random() < (0.03 if tier == "quick" else 0.1)
    files = gen_big_files(rng) if big else gen_files(rng, max_total=48 if tier == "quick" else 256)
    N = sum(files["nsamps"])
    bounds = list(np.cumsum(files["nsamps"]))
    ops = []
    for _ in range(rng.choice([1, 1, 1, 2, 3, 4])):
        if ops and rng.random() < 0.2:
            st = rng.randint(0, N - 1)
            ops.append({"op": "read_block", "start": st, "nsamps": rng.randint(1, N - st)})  # another API on the same reader in between
        ops.append(gen_plan(rng, N, bounds))
    if N > 20000:
        # long sets: keep every plan (and a K4 second reader's) to a few thousand blocks
        for o in ops:
            if o["op"] != "plan":
                continue
            n_eff = N - o["start"] if o["nsamps"] is None else o["nsamps"]
            step = max(1, min(o["gulp"], max(1, n_eff)) - o["skipback"])
            if n_eff // step > 2000:
                o["gulp"] = o["skipback"] + max(1, n_eff // rng.randint(50, 2000))
            if o.get("k4"):
                o["k4"] = max(o["k4"], N // 1000)
    faults = []
    if rng.random() < 0.3:
        for _ in range(rng.choice([1, 1, 2])):
            kind = rng.choice(["R1", "R1", "R2", "R3", "R4"])
            f = {"kind": kind, "op": rng.randrange(len(ops)), "call": rng.choice([0, 1, 1, 2, 3, 5]),
                 "arg": rng.choice([1, 1, 2, 3, rng.randint(1, 40)])}
            faults.append(f)
    return {"files": files, "ops": ops, "faults": faults}


def gen_plan(rng, N, bounds) -> dict:
    r = rng.random()
    if r < 0.45:
        start, nsamps = 0, None  # to EOF
    elif r < 0.6:
        start = rng.randint(0, N)
        nsamps = None
    elif r < 0.72 and len(bounds) > 1:
        # a range that starts within a sample or two of a file boundary
        start = max(0, min(N, int(rng.choice(bounds[:-1])) + rng.choice([-3, -2, -1, -1, 0, 1])))
        nsamps = rng.choice([None, rng.randint(0, min(N - start, 4000))]) if N - start > 4000 else rng.choice([None, rng.randint(0, N - start)])
    else:
        start = rng.randint(0, N)
        nsamps = rng.randint(0, N - start)
    n_eff = N - start if nsamps is None else nsamps
    gulp = rng.choice([1, 2, 3, rng.randint(1, max(1, n_eff)), rng.randint(1, N + 8), n_eff + rng.randint(0, 3), max(1, n_eff // 2)])
    gulp = max(1, gulp)
    eff = min(gulp, n_eff)
    r = rng.random()
    if r < 0.4:
        skipback = 0
    elif r < 0.75:
        skipback = rng.randint(0, max(0, eff // 2))
    elif r < 0.9:
        skipback = rng.randint(eff // 2, max(eff // 2, eff - 1))
    else:
        skipback = rng.randint(max(0, eff - 1), gulp + 2)
    op = {"op": "plan", "gulp": gulp, "start": start, "nsamps": nsamps, "skipback": skipback,
          "consumer": rng.choice(["plain", "K1", "K1", "K2"]), "allocator": None, "abandon_at": None, "k4": None}
    if rng.random() < 0.08:
        # K5: the plan is handed from thread to thread - a GUI thread peeks at the first block and a worker consumes the
        # rest, or a pool pulls each block from a short-lived thread.  Strictly sequential (each next() is joined before the
        # following one starts): no concurrency, only the identity of the calling thread changes.
        op["threads"] = rng.choice(["every-next-in-a-new-thread", "first-here-rest-in-one-worker", "made-in-a-worker-consumed-here"])
    if rng.random() < 0.2:
        op["allocator"] = rng.choice(["A1", "A2", "A3", "A4", "A4", "A5np", "A5array", "A5mmap"])
    if rng.random() < 0.15:
        op["abandon_at"] = rng.randint(0, 4)
    if rng.random() < 0.1:
        op["k4"] = gulp if rng.random() < 0.5 else rng.randint(1, N + 1)  # same block size as reader A half of the time
    # the plan object is made some time BEFORE it is iterated: when the previous plan is made (windows
    # listed up front, consumed one after another), or with a quick read_block look in between
    r = rng.random()
    if r < 0.08:
        op["made_early"] = True
    elif r < 0.16 and N >= 1:
        st = rng.randint(0, N - 1)
        op["peek"] = [st, rng.randint(1, N - st)]
    # who keeps the reader alive: `for blk in FilReader(f).read_plan(...)`, a helper that returns the plan of a reader
    # it opened, zip() over the plans of several beams - the plan is then the only thing that refers to the reader;
    # or a shallow copy of the reader was made and dropped while the original carries on
    r = rng.random()
    if r < 0.08:
        op["orphan"] = "plan-outlives-its-reader"
    elif r < 0.12:
        op["orphan"] = "copy-of-the-reader-dropped"
    return op


def fixup(sc):
    f = sc["files"]
    if f["nbits"] not in (1, 2, 4, 8, 16, 32) or f["nchans"] < 1 or (f["nchans"] * f["nbits"]) % 8:
        return None
    if sc.get("huge"):
        # a multi-gigabyte sparse set: every plan stays a SHORT range (nothing may walk the stream), no second reader
        if f["nbits"] != 8 or f.get("windows") is None:
            return None
        f["windows"] = [[int(a), min(int(b), int(a) + 1024)] for a, b in f["windows"] if int(b) > int(a)][:16]
        Nh = sum(max(1, int(n)) for n in f["nsamps"][:3])
        for o in sc["ops"]:
            o["start"] = max(0, min(int(o["start"]), Nh - 1))
            lim = min(4096, Nh - o["start"])
            o["nsamps"] = lim if (o["nsamps"] is None and lim < Nh - o["start"]) else (None if o["nsamps"] is None else max(1, min(int(o["nsamps"]), lim)))
            if o["op"] == "plan":
                o["k4"] = None
                o["orphan"] = None
        sc["faults"] = []
    f["nsamps"] = [n for n in f["nsamps"] if n >= 1][:3]
    if not f["nsamps"]:
        return None
    f["pad"] = (list(f.get("pad") or []) + [0, 0, 0])[: len(f["nsamps"])]
    N = sum(f["nsamps"])
    for o in sc["ops"]:
        if o["op"] == "read_block":
            o["start"] = max(0, min(o["start"], N - 1))
            o["nsamps"] = max(1, min(o["nsamps"], N - o["start"]))
            continue
        o["gulp"] = max(1, o["gulp"])
        o["start"] = max(0, min(o["start"], N))
        if o["nsamps"] is not None:
            o["nsamps"] = max(0, min(o["nsamps"], N - o["start"]))
        o["skipback"] = max(0, o["skipback"])
        if o.get("k4") is not None:
            o["k4"] = max(1, o["k4"])
        if o.get("peek"):
            o["peek"][0] = max(0, min(o["peek"][0], N - 1))
            o["peek"][1] = max(1, min(o["peek"][1], N - o["peek"][0]))
    sc["faults"] = [x for x in sc["faults"] if 0 <= x.get("op", -1) < len(sc["ops"])]
    return sc


def nontrivial(sc, ctx) -> bool:
    return ctx.probes.get("compared-block", 0) > 0


# ------------------------------------------------------------------ allocators
def make_allocator(kind, ctx):
    keep = []

    def a4(n):
        return bytearray([0x5A]) * n

    def a1(n):
        raise MemoryError("simulated allocation failure")

    def a2(n):
        return bytearray(n + 1)

    def a3(n):
        return [0] * n

    def a5np(n):
        a = np.full(n, 0xC3, dtype=np.uint8)
        keep.append(a)
        return a

    def a5array(n):
        return array.array("B", [0x3C]) * n

    def a5mmap(n):
        m = mmap.mmap(-1, n)
        m.write(b"\x99" * n)
        keep.append(m)
        return m

    return {"A1": a1, "A2": a2, "A3": a3, "A4": a4, "A5np": a5np, "A5array": a5array, "A5mmap": a5mmap}[kind]


# ------------------------------------------------------------------ the block-by-block oracle
class PlanOracle:
    """Checks each yielded block against the array model (generic in block sizing)."""

    def __init__(self, ctx, fs, op, tag, info, N_exist=None) -> None:
        self.ctx, self.fs, self.op, self.tag, self.info = ctx, fs, op, tag, info
        self.nchans = fs.spec["nchans"]
        self.start = op["start"]
        self.nsamps = fs.nsamples - op["start"] if op["nsamps"] is None else op["nsamps"]
        self.s = op["skipback"]
        self.cursor = 0
        self.nblocks = 0
        self.file_bounds = list(np.cumsum(fs.spec["nsamps"]))[:-1]

    def viol(self, clause, detail=""):
        return Violation(f"C01/read_plan/{clause}/{self.tag}", detail, self.info)

    def block(self, item) -> None:
        ctx = self.ctx
        try:
            n, ii, arr = item
        except Exception:  # noqa: BLE001
            raise self.viol("malformed-yield", repr(item)[:200]) from None
        arr_np = np.asarray(arr)
        nch = self.nchans
        if arr_np.ndim != 1 or len(arr_np) % nch != 0:
            raise self.viol("not-whole-samples", f"len={arr_np.shape}")
        if int(n) != len(arr_np) // nch:
            raise self.viol("reported-count", f"n={n} len/nchans={len(arr_np) // nch}")
        n = int(n)
        if not (1 <= n <= self.op["gulp"]):
            raise self.viol("block-size", f"n={n} gulp={self.op['gulp']}")
        s = self.s
        blk = arr_np.reshape(n, nch)
        model = self.fs.samples
        if self.nblocks == 0:
            new0 = 0
            a = self.start
        else:
            if n < s:
                raise self.viol("block-shorter-than-skipback", f"n={n} skipback={s}")
            if self.cursor < s:
                raise self.viol("overlap-before-start", f"cursor={self.cursor} skipback={s}")
            new0 = s
            a = self.start + self.cursor - s
            if n == s:
                ctx.probe("overlap-only-block")
        new = n - new0
        if self.cursor + new > self.nsamps:
            raise self.viol("out-of-range-sample", f"cursor={self.cursor} new={new} nsamps={self.nsamps}")
        exp = model[a : a + n]
        if not _same(blk, exp):
            # say which part is wrong: the overlap or the new samples
            part = "overlap" if (new0 and not _same(blk[:new0], exp[:new0])) else "new-samples"
            raise self.viol(f"wrong-{part}", f"block {self.nblocks} covers [{a},{a + n}) " + _diff(blk, exp))
        lo, hi = a, a + n
        crossed = sum(1 for b in self.file_bounds if lo < b < hi)
        if crossed >= 1:
            ctx.probe("block-spans-file-boundary")
        if crossed >= 2:
            ctx.probe("block-spans-two-boundaries")
        self.cursor += new
        self.nblocks += 1
        self.last = (blk, exp, a, n)  # the view the consumer still holds until this generator is resumed
        ctx.probe("compared-block")
        ctx.log("blk", self.nblocks - 1, int(ii), n, zlib.crc32(np.ascontiguousarray(blk).tobytes()))

    def recheck(self, why) -> None:
        """The block last yielded must stay intact until ITS generator is resumed - whatever else
        happens in the process (another reader advancing, another API call)."""
        if getattr(self, "last", None) is None:
            return
        blk, exp, a, n = self.last
        if not _same(blk, exp):
            raise self.viol("held-block-clobbered", f"block covering [{a},{a + n}) changed while the consumer held it ({why})")
        self.ctx.probe("held-block-rechecked")

    def exhausted(self) -> None:
        if self.cursor != self.nsamps:
            raise self.viol("missing-samples", f"delivered {self.cursor} of {self.nsamps}")


def _same(a, b) -> bool:
    if a.dtype == b.dtype:
        return filgen.same_bits(a, b)
    return a.shape == b.shape and bool(np.array_equal(a, b, equal_nan=True))


def _diff(a, b) -> str:
    a2, b2 = np.asarray(a), np.asarray(b)
    if a2.shape != b2.shape:
        return f"shape {a2.shape} vs {b2.shape}"
    bad = [(i, j) for i in range(a2.shape[0]) for j in range(a2.shape[1]) if a2[i, j : j + 1].tobytes() != b2[i, j : j + 1].tobytes()]
    if not bad:
        return "dtype differs"
    i, j = bad[0]
    return f"{len(bad)} of {a2.size} differ, first at sample {i} chan {j}: got {a2[i, j]!r} want {b2[i, j]!r}"


def regime(op, N) -> tuple:
    nsamps = N - op["start"] if op["nsamps"] is None else op["nsamps"]
    eff = min(op["gulp"], nsamps)
    s = op["skipback"]
    if s >= eff:
        sreg = "s>=eff"
    elif s == 0:
        sreg = "s0"
    elif 2 * s <= eff:
        sreg = "s-low"
    else:
        sreg = "s-mid"
    eof = "toEOF" if op["start"] + nsamps == N else "beforeEOF"
    return nsamps, eff, sreg, eof


# ------------------------------------------------------------------ execution
def _in_thread(fn, pool=None):
    """Run fn() in ANOTHER thread and wait for it: the caller's thread changes, nothing runs concurrently.  With `pool`
    (a list) one long-lived worker is reused; otherwise a new thread per call."""
    import queue
    import threading

    box = {}

    def run(f, b):
        try:
            b["v"] = f()
        except BaseException as e:  # noqa: BLE001 - re-raised in the calling thread
            b["e"] = e

    if pool is None:
        t = threading.Thread(target=run, args=(fn, box), name="sim-consumer")
        t.start()
        t.join()
    else:
        if not pool:
            q_in, q_out = queue.Queue(), queue.Queue()

            def loop():
                while True:
                    job = q_in.get()
                    if job is None:
                        return
                    run(*job)
                    q_out.put(1)

            t = threading.Thread(target=loop, name="sim-worker", daemon=True)
            t.start()
            pool.extend([q_in, q_out, t])
        pool[0].put((fn, box))
        pool[1].get()
    if "e" in box:
        raise box["e"]
    return box.get("v")


def _plan_of(rd, op, kw):
    """The plan object of `rd`; when this frame returns, the caller's own references are all that keep `rd` alive."""
    gen = iter(rd.read_plan(gulp=nint(op["gulp"]), start=nint(op["start"]), nsamps=nint(op["nsamps"]), skipback=nint(op["skipback"]), quiet=True, **kw))
    del rd
    return gen


def execute(sc, ctx) -> None:
    from sigpyproc.readers import FilReader

    files = sc["files"]
    if sc.get("huge"):
        fs = filgen.sparse_fileset(ctx.root, files)
        ctx.probe("multi-gigabyte-sparse-stream")
    else:
        fs = filgen.write_fileset(ctx.root, files)
    N = fs.nsamples
    nbits, nchans = files["nbits"], files["nchans"]
    stride = nchans * nbits // 8
    nfiles = len(files["nsamps"])
    if nbits < 8:
        ctx.probe("sub-byte")
    if files.get("big"):
        ctx.probe("big-blocks")
    ctx.sig += [f"nbits{nbits}", f"files{nfiles}"]
    truncated = False
    after_fault = False

    def make_plan(op):
        """Make the plan object the way a caller does.  Whether the arguments are examined now or on the
        first next() is the library's business: an exception now is delivered on the first next()."""
        kw = {}
        if op["allocator"]:
            kw["allocator"] = make_allocator(op["allocator"], ctx)
        rd = reader
        if op.get("orphan") and not sc["faults"]:
            import copy
            import gc

            if op["orphan"] == "plan-outlives-its-reader":
                rd = FilReader(fs.paths)  # nothing but the plan will refer to this one
            else:
                dup = copy.copy(reader)
                del dup
                gc.collect(0)  # (reference counting has already finalised it; a young-generation pass costs nothing)
            ctx.probe("orphan:" + op["orphan"])
        try:
            return _plan_of(rd, op, kw)
        except Exception as e:  # noqa: BLE001
            def deferred(_e=e):
                raise _e
                yield  # pragma: no cover
            ctx.probe("plan-refused-at-creation")
            return deferred()

    early = {}
    with SimDisk(ctx, sc["faults"]) as sim:
        reader = open_reader("C01", fs.paths)
        for i, op in enumerate(sc["ops"]):
            nxt = sc["ops"][i + 1] if i + 1 < len(sc["ops"]) else None
            if op["op"] == "plan" and nxt is not None and nxt["op"] == "plan" and nxt.get("made_early") and not sc["faults"]:
                early[i + 1] = make_plan(nxt)  # before THIS plan is made and consumed
                ctx.probe("plan-made-before-the-previous-one-was-consumed")
            if op["op"] == "read_block":
                sim.begin_op(i, budget=64 * (nfiles + 2))
                fired0 = sum(ctx.faults.values())
                try:
                    blk = np.asarray(reader.read_block(nint(op["start"]), nint(op["nsamps"])).data)
                except Exception as e:  # noqa: BLE001
                    if sum(ctx.faults.values()) > fired0 or truncated:
                        continue
                    raise Violation("C01/read_block-between-plans/raised", repr(e), {"api": "read_block", **op}) from None
                want = fs.samples[op["start"] : op["start"] + op["nsamps"]].T.astype(np.float32)
                if not (truncated or sum(ctx.faults.values()) > fired0) and not filgen.same_bits(blk.astype(np.float32), want):
                    raise Violation("C01/read_block-between-plans/wrong-data", "", {"api": "read_block", **op})
                ctx.probe("read_block-between-plans")
                ctx.log("read_block", i, op["start"], op["nsamps"])
                continue
            nsamps, eff, sreg, eof = regime(op, N)
            s, gulp = op["skipback"], op["gulp"]
            step = max(1, eff - s)
            nblocks_est = nsamps // step + 3
            budget = 8 * nblocks_est * (nfiles + 2) + 32
            if op.get("k4") and not sc["faults"]:
                budget += 8 * (N // max(1, op["k4"]) + 3) * (nfiles + 2)  # the second reader's own blocks
            sim.begin_op(i, budget=budget)
            # R4: the last file shrinks underneath the open reader before this plan starts
            for f in sim.faults:
                if f["kind"] == "R4" and f["op"] == i and not f.get("_done"):
                    last = fs.paths[-1]
                    size = os.path.getsize(last)
                    cut = max(1, min(int(f["arg"]), size - fs.hdrlens[-1]))
                    if size - cut >= fs.hdrlens[-1]:
                        os.truncate(last, size - cut)
                        truncated = True
                        sim.fire(f)
                        ctx.log("R4-truncate", ctx.rel(last), cut)
            fired0 = sum(ctx.faults.values())
            info = {"api": "read_plan", "gulp": gulp, "start": op["start"], "nsamps": nsamps, "skipback": s,
                    "N": N, "eff": eff, "nbits": nbits, "nfiles": nfiles, "sreg": sreg, "eof": eof,
                    "consumer": op["consumer"], "allocator": op["allocator"], "op_index": i}
            tagbase = f"{eof}/{sreg}"
            alloc = op["allocator"]
            if alloc:
                ctx.probe(alloc[:2])
            thr = op.get("threads") if not sc["faults"] else None
            if thr:
                ctx.probe("K5:" + thr)
            if thr == "made-in-a-worker-consumed-here" and i not in early:
                gen = _in_thread(lambda: make_plan(op))
            else:
                gen = early.pop(i, None) or make_plan(op)
            worker_pool = []
            if op.get("peek") and not sc["faults"]:
                # a quick look at some other range between making the plan and iterating it
                pk = np.asarray(reader.read_block(op["peek"][0], op["peek"][1]).data)
                if not filgen.same_bits(pk.astype(np.float32), fs.samples[op["peek"][0] : op["peek"][0] + op["peek"][1]].T.astype(np.float32)):
                    raise Violation("C01/read_block-between-plans/wrong-data", "read_block between making a plan and iterating it", {"api": "read_block", "peek": op["peek"]})
                ctx.probe("read_block-between-making-and-iterating-a-plan")
            # probes that depend only on the arguments
            if gulp > nsamps:
                ctx.probe("gulp>nsamps")
            if op["start"] > 0:
                ctx.probe("start>0")
            if sreg == "s-mid":
                ctx.probe("skipback-mid-regime")
            if sreg == "s-low":
                ctx.probe("skipback-low-regime")
            if sreg in ("s0", "s-low") and eff > s and nsamps % (eff - s) < s:
                ctx.probe("lastread<skipback-correction")
            if eof == "beforeEOF" and sreg != "s>=eff" and (nsamps - s) % (eff - s) != 0:
                ctx.probe("partial-last-block-before-EOF")
            if nsamps == 0:
                ctx.probe("nsamps=0")
            if i > 0 and sc["ops"][i - 1].get("abandon_at") is not None and sc["ops"][i - 1]["op"] == "plan":
                ctx.probe("K3-abandon-then-plan")
            ctx.sig += [sreg, eof, op["consumer"], str(alloc), "multi" if nfiles > 1 else "single"]

            # K4: an independent reader on the same files, advanced alternately
            gen_b = orc_b = None
            if op.get("k4") and not sc["faults"]:  # K4 only in fault-free runs (fault addresses stay attributable)
                reader_b = FilReader(fs.paths)
                opb = {"gulp": op["k4"], "start": 0, "nsamps": None, "skipback": 0}
                gen_b = reader_b.read_plan(gulp=op["k4"], quiet=True)
                orc_b = PlanOracle(ctx, fs, opb, "K4-second-reader", {**info, "api": "read_plan(K4 second reader)"})
                ctx.probe("K4")

            oracle = None
            yielded = 0
            raised = None
            abandoned = False
            try:
                while True:
                    def tag():
                        ff = sum(ctx.faults.values()) > fired0 or truncated
                        return tagbase + ("/fault" if ff else "/nofault")
                    try:
                        if thr == "every-next-in-a-new-thread" or (thr == "first-here-rest-in-one-worker" and yielded >= 1):
                            item = _in_thread(lambda: next(gen), worker_pool if thr == "first-here-rest-in-one-worker" else None)
                        else:
                            item = next(gen)
                    except StopIteration:
                        break
                    if oracle is None:
                        oracle = PlanOracle(ctx, fs, op, tag(), info)
                    oracle.tag = tag()
                    if alloc in ("A1", "A2", "A3"):
                        raise Violation(f"C01/read_plan/yielded-with-failing-allocator/{alloc}", "", info)
                    if sreg == "s>=eff":
                        raise Violation(f"C01/read_plan/accepted-unhonourable-plan/{tagbase}", f"skipback {s} >= effective gulp {eff}", info)
                    oracle.block(item)
                    yielded += 1
                    arr = item[2]
                    if op["consumer"] == "K1":
                        arr[:] = 0xA5 if arr.dtype != np.float32 else np.float32(-12345.0)
                        ctx.probe("K1")
                    elif op["consumer"] == "K2":
                        arr[0::nchans] = 1
                        ctx.probe("K2")
                    if gen_b is not None:
                        orc_b.recheck("reader A advanced")
                        try:
                            orc_b.block(next(gen_b))
                            if op["consumer"] == "plain":
                                oracle.recheck("the second reader advanced")
                        except StopIteration:
                            gen_b = None
                        except Violation:
                            raise
                        except Exception as e:  # noqa: BLE001 - K4 runs fault-free: the second reader must not raise
                            raise Violation("C01/read_plan/raised/K4-second-reader", repr(e), orc_b.info) from None
                    if op["abandon_at"] is not None and yielded > op["abandon_at"]:
                        gen.close()
                        abandoned = True
                        ctx.log("abandon", i, yielded)
                        break
            except SimLivelock as e:
                raise Violation(f"C01/read_plan/livelock/{tagbase}", str(e), info) from None
            except Violation:
                raise
            except Exception as e:  # noqa: BLE001 - classified below
                raised = e
            if worker_pool:
                worker_pool[0].put(None)
                worker_pool[2].join()
            fault_fired = sum(ctx.faults.values()) > fired0
            faulty = fault_fired or truncated
            for k in ("R1", "R2", "R3", "R4"):
                if fault_fired and any(f.get("_done") and f["kind"] == k and f["op"] == i for f in sim.faults):
                    ctx.probe(f"fault-inside-plan:{k}")
            ftag = tagbase + ("/fault" if faulty else "/nofault")
            info["fault"] = faulty
            info["yielded"] = yielded
            ctx.log("plan", i, gulp, op["start"], nsamps, s, yielded, type(raised).__name__ if raised else "ok")
            if yielded >= 3:
                ctx.probe(">=3-blocks")
            must_reject = sreg == "s>=eff"
            if must_reject:
                ctx.probe("must-reject")
            if raised is not None:
                if alloc in ("A1", "A2", "A3") and yielded == 0:
                    pass  # documented refusal, nothing yielded
                elif must_reject:
                    if not isinstance(raised, ValueError) and not faulty:
                        raise Violation(f"C01/read_plan/reject-not-ValueError/{ftag}", repr(raised), info)
                elif not faulty:
                    if yielded > 0:
                        raise Violation(f"C01/read_plan/raised-after-yield/{ftag}", repr(raised), info)
                    if sreg in ("s0", "s-low") and nsamps >= 1:
                        raise Violation(f"C01/read_plan/honourable-plan-rejected/{ftag}", repr(raised), info)
                    if not isinstance(raised, ValueError):
                        raise Violation(f"C01/read_plan/reject-not-ValueError/{ftag}", repr(raised), info)
                # fault configuration: raising is an allowed outcome
                after_fault = after_fault or faulty
            else:
                if alloc in ("A1", "A2", "A3"):
                    raise Violation(f"C01/read_plan/failing-allocator-ignored/{alloc}", "", info)
                if must_reject:
                    raise Violation(f"C01/read_plan/unhonourable-plan-not-rejected/{ftag}", "", info)
                if not abandoned:
                    if oracle is None:
                        if nsamps != 0:
                            raise Violation(f"C01/read_plan/missing-samples/{ftag}", f"no block for nsamps={nsamps}", info)
                    else:
                        oracle.tag = ftag
                        oracle.exhausted()
                if after_fault and not faulty:
                    ctx.probe("plan-after-fault-exact")
            # let the second reader finish: it must be undisturbed by reader A
            while gen_b is not None:
                try:
                    orc_b.block(next(gen_b))
                except StopIteration:
                    gen_b = None
                    orc_b.exhausted()
                except Violation:
                    raise
                except Exception as e:  # noqa: BLE001
                    raise Violation("C01/read_plan/raised/K4-second-reader", repr(e), orc_b.info) from None
        reader._file.close()
