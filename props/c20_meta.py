"""C20 static metadata."""
LEVEL = "fault_enumeration"
QUICK_RUNS = 320
THOROUGH_BUDGET_S = 600
RULE = (
    "seeded scenarios (writer, its arguments, gulp, sub-range, small input file); per scenario the fault points are "
    "ENUMERATED, not sampled: a golden fault-free run records every FileWriter.write/cwrite call (snapshot of each "
    "output after every call: S0 is exactly one complete header, S(k) is a prefix of S(k+1), final file already on "
    "disk at return), then the call is re-run once per write index k with a crash right after write k (W1), with a "
    "torn write at every byte offset j of blocks <= 16 bytes (first/middle-sample-boundary/last offsets otherwise) (W2), with ENOSPC at (k,j) "
    "(W3, the call must raise), with a crash at sampled input reads (W5); every surviving file and every byte-length "
    "truncation of every final output at or after its header is opened with FilReader and read back (read_block; "
    "read_plan only when the data section is whole samples). evaluations counts re-executions + truncations; "
    "non-trivial = a (scenario, fault point) pair whose survivor was read back; distinct = distinct event digests of scenarios."
)
PROBES = ["K>=4", "multi-output-crashed-between-files", "sub-byte-torn-mid-sample", "crash-during-second-batch",
          "W1-points", "W2-points", "W3-points", "W5-points", "truncations", "survivor-read_plan", "pre-existing-output-run", "big-writes", "in-flight-states-inside-a-write"] + [
    f"writer:{w}" for w in ["invert_freq", "apply_channel_mask", "extract_samps", "extract_chans", "extract_bands",
                            "downsample", "subband", "remove_zerodm", "clean_rfi", "to_file", "to_tim", "to_spec"]]
COMPONENTS = {
    "real": ["all of sigpyproc on the call path (transforms, read_plan, prep_outfile, FileWriter, kernels)",
             "FilReader used to re-open survivors", "numpy tofile on a real descriptor (tmpfs)"],
    "simulated": ["process death (SimCrash raised out of the wrapped write/read)", "torn write / ENOSPC: emulated by truncating the file to size_before+j right after the real write (guarded by the append-only check)",
                  "every byte-length truncation of the final file"],
    "stubbed": [],
}
ASSUMPTIONS = [
    "no power-loss model: the library never syncs and the statement speaks of process death; durable state = bytes of completed write syscalls",
    "a torn write of the header itself (file shorter than one header) is outside the statement (truncations 'at or after the header')",
    "survivors ending in a partial sample are read with read_block only: tests/test_readers.py::test_read_plan_corrupted_file requires read_plan to raise there",
    "TimeSeries.to_dat / FourierSeries.to_fft are PRESTO outputs without a SIGPROC header and are not SIGPROC prefixes by construction; they are covered by C04, not here",
]


def extra_coverage(agg):
    p = agg["probes"]
    pts = {k: p.get(k, 0) for k in ("W1-points", "W2-points", "W3-points", "W5-points", "truncations")}
    scen = sum(v for k, v in p.items() if k.startswith("writer:"))
    return {"fault_points_enumerated": pts, "exhaustive_within_scenario": True, "scenarios": scen,
            "evaluations": int(scen + sum(pts.values())),  # golden runs + one re-execution per fault point + one reopen per truncation
            "survivors_read_back": p.get("survivor-read-back", 0),
            "distinct_nontrivial_note": "counted conservatively as distinct scenario digests; each scenario contributes its whole enumerated set of fault points"}

# dimensions added in seeded round 9
PROBES = list(PROBES) + ["E1:descriptor-exhaustion-raised", "E1:call-succeeded"]
RULE = RULE + (" Round 9: fault kind E1 - for m in {0,1,2,n_out/2+1,n_out,n_out+1,n_out+3} (single-output writers: {0,1,3}) the soft RLIMIT_NOFILE is set to (open descriptors + m) for the duration of the call: a REAL "
               "EMFILE; the call must raise (survivors are valid prefixes) or return with every golden file complete.")
COMPONENTS = {**COMPONENTS, "simulated": list(COMPONENTS["simulated"]) + ["descriptor exhaustion: the soft RLIMIT_NOFILE of the worker process is lowered around the call (the EMFILE itself is the kernel's)"]}

# dimensions added in seeded round 10
RULE = RULE + " Round 10: W4 - one raw data write transfers at most 1-1000 bytes in 5/8 of the scenarios; tuning constants also lowered where they are class attributes."

# dimensions added in seeded round 11
RULE = RULE + " Round 11: 60% of the several-kB scenarios (7% of all) use data whose every second stretch of 128 samples is zero in all channels, with block-aligned gulps, so that whole written blocks of 4-8 kB are nothing but zero bytes, also as the last blocks of a product."
