"""C06 - streaming reductions are independent of gulp size and equal their definitions."""
from __future__ import annotations

import os
import zlib

import numpy as np

from sim import filgen
from sim import transforms as T
from sim.core import nint, open_reader, SimLivelock, Violation
from sim.disk import SimDisk

from .c02 import after_list_removal  # noqa: F401
from .c07 import blocks_of

ID = "C06"
VARY_KNOBS = True  # module-level tuning constants of the library are lowered in some runs (sim.core.lower_tuning_constants)
VARY_ARGFORM = True  # integer call arguments also arrive as numpy integer scalars
GUARD_KERNELS = True
NAMES = ["collapse", "bandpass", "read_chan", "dedisperse", "compute_stats", "compute_stats_basic"]
SHRINK_LISTS = ("ops", "faults", "pre", ("files", "nsamps"))
SHRINK_SIMPLE = {"knobs": None, "earlier": None, "argform": "int"}
SHRINK_MIN = {"nchans": 1, "nbits": 1, "gulp": 1}


def warm() -> None:
    import tempfile

    from sigpyproc.readers import FilReader

    from sim.core import scratch_root

    root = tempfile.mkdtemp(dir=scratch_root())
    for nbits in (8, 32, 4):
        spec = {"nbits": nbits, "nchans": 4, "nsamps": [6], "vseed": 1, "mode": "small", **T.DISP_BAND}
        fs = filgen.write_fileset(root, spec, stem=f"w{nbits}_")
        r = FilReader(fs.paths)
        for f in (lambda: r.collapse(gulp=4, quiet=True), lambda: r.bandpass(gulp=4, quiet=True), lambda: r.read_chan(1, gulp=4, quiet=True),
                  lambda: r.dedisperse(0.01, gulp=4, quiet=True), lambda: r.compute_stats(gulp=4, quiet=True),
                  lambda: r.compute_stats_basic(gulp=4, quiet=True)):
            try:
                f()
            except Exception:  # noqa: BLE001,S110
                pass


def generate(rng, tier) -> dict:
    if rng.random() < (0.002 if tier == "quick" else 0.006):
        # one block of ten million samples x channels and a gulp that is no power of two: block-size dependent paths of the
        # reductions (tiling, partial tiles) only exist there
        nch = rng.choice([1024, 1024, 3072])
        n = rng.randint(9000, 14000) if nch == 1024 else rng.randint(3200, 4500)
        g = rng.choice([10000, n - 7, n + 3, 9999]) if nch == 1024 else rng.choice([3000, n - 7, n + 3])
        nm = rng.choice(["bandpass", "bandpass", "collapse", "compute_stats_basic"])
        return {"files": {"nbits": 8, "nchans": nch, "nsamps": [n], "pad": [0], "vseed": rng.randrange(1 << 16), "mode": "small", "big": True},
                "name": nm, "params": {}, "start": 0, "nsamps": None, "pre": [], "earlier": None, "ops": [{"gulp": g}, {"gulp": 512}], "faults": [], "huge": True}
    name = rng.choice(NAMES)
    nbits = rng.choice([1, 2, 4, 8, 8, 32, 32])  # the quantifier: depths {1,2,4,8,32} (16-bit blocks are refused by the compiled kernels)
    chans = [c for c in (1, 2, 4, 6, 8, 12, 16) if (c * nbits) % 8 == 0]
    if name == "dedisperse":
        chans = [c for c in chans if c > 1]
    nchans = rng.choice(chans)
    nfiles = rng.choice([1, 1, 2])
    mx = 48 if tier == "quick" else 200
    counts = [rng.choice([1, 2, rng.randint(1, mx // nfiles), rng.randint(1, mx // nfiles)]) for _ in range(nfiles)]
    spec = {"nbits": nbits, "nchans": nchans, "nsamps": counts, "pad": filgen.gen_pads(rng, len(counts), 5),
            "vseed": rng.randrange(1 << 16), "mode": rng.choice(["small", "small", "small", "gappy"])}
    if rng.random() < (0.02 if tier == "quick" else 0.06):
        nchans = rng.choice([c for c in (64, 128, 256) if (c * nbits) % 8 == 0])
        total = rng.randint(300, 1500)
        counts = [total] if nfiles == 1 else [total // 3, total - total // 3]
        spec.update({"nchans": nchans, "nsamps": counts, "pad": [0] * len(counts), "big": True})
    if name == "dedisperse":
        spec.update(T.DISP_BAND)
        spec["foff"] = -10.0 * 16 / max(16, nchans) if spec.get("big") else T.DISP_BAND["foff"]
    N = sum(counts)
    if nbits in (8, 16) and rng.random() < 0.3 and sum(counts) * ((1 << nbits) - 1) < (1 << 24):
        spec["mode"] = "bits"  # the whole range of the sample type (sums stay below 2^24: still exact in float32)
    r = rng.random()
    if r < 0.35:
        start, nsamps = 0, None
    elif r < 0.55:
        start, nsamps = rng.randint(0, N - 1), None  # "from start to the end": nsamps left at its default
    else:
        start = rng.randint(0, N - 1)
        nsamps = rng.randint(1, N - start)
    ns = N - start if nsamps is None else nsamps
    params = {}
    if name == "read_chan":
        params = {"ichan": rng.randrange(nchans)}
    if name == "dedisperse":
        params = {"dm": T.pick_dm(rng, nchans, ns, band={k: spec.get(k, T.DISP_BAND[k]) for k in T.DISP_BAND})}
    ops = []
    for _ in range(2):
        ops.append({"gulp": max(1, rng.choice([1, 2, 3, rng.randint(1, max(1, ns)), ns, ns + rng.randint(1, 4), max(1, ns // 2), max(1, ns // 3)]))})
    if rng.random() < 0.1:
        ops[rng.randrange(2)]["gulp"] = None  # the gulp argument left at its default
    if rng.random() < 0.12:
        # a scheduling point: right after one of this call's reads, another task of the process (another beam of the same
        # backend: same shape, other data, its own reader) runs the same reduction - the thread switch that the GIL release
        # inside readinto allows, made deterministic
        ops[rng.randrange(2)]["switch"] = rng.choice([0, 1, 1, 2, 3])
    if rng.random() < 0.1:
        ops[0]["reentrant"] = True  # the allocator callback of this call runs the same reduction on another reader
    if rng.random() < 0.35 and N >= 2:
        # the second call asks for ANOTHER window on the same reader (same length shifted, or any other)
        if rng.random() < 0.6 and ns < N:
            st2 = rng.choice([s for s in range(0, N - ns + 1) if s != start] or [start])
            ops[1].update({"start": st2, "nsamps": ns})
        else:
            st2 = rng.randint(0, N - 1)
            ops[1].update({"start": st2, "nsamps": rng.choice([None, rng.randint(1, N - st2)])})
    pre = gen_pre(rng, N) if rng.random() < 0.3 else []
    earlier = None
    if rng.random() < 0.2:
        # an EARLIER session in the same process: the same call on another file with the same band but another
        # sampling time (or another channel count), through a reader that no longer exists
        spec2 = {**{k: v for k, v in spec.items() if k != "big"}, "nsamps": [max(2, min(40, N))], "pad": [0], "vseed": rng.randrange(1 << 16)}
        if rng.random() < 0.6:
            spec2["tsamp"] = float(spec.get("tsamp", 0.001)) * 2
        else:
            others = [c for c in chans if c != nchans]
            if others:
                spec2["nchans"] = rng.choice(others)
        earlier = {"files": spec2, "gulp": rng.randint(1, 20)}
    faults = []
    if rng.random() < 0.25:
        for _ in range(rng.choice([1, 1, 2])):
            faults.append({"kind": rng.choice(["R1", "R2"]), "op": rng.randrange(len(ops)), "call": rng.choice([0, 1, 1, 2, 3, 4]),
                           "arg": rng.choice([1, 3, rng.randint(1, 64)])})
    return {"files": spec, "name": name, "params": params, "start": start, "nsamps": nsamps, "pre": pre, "earlier": earlier, "ops": ops, "faults": faults}


def run_earlier_session(sc, ctx, sim) -> None:
    """Context, not the call under test: its objects are gone before the scenario's reader exists."""
    e = sc["earlier"]
    d = os.path.join(ctx.root, "earlier")
    os.makedirs(d, exist_ok=True)
    fs0 = filgen.write_fileset(d, e["files"], stem="prev")
    sim.begin_op(-2, budget=1000000)
    try:
        r0 = open_reader("C06", fs0.paths, allow_chdir=False)
        p0 = dict(sc["params"])
        if "ichan" in p0:
            p0["ichan"] = min(p0["ichan"], e["files"]["nchans"] - 1)
        call(sc["name"], r0, p0, e["gulp"], 0, None)
        r0._file.close()
        del r0
    except Violation:
        raise
    except Exception as ex:  # noqa: BLE001
        ctx.observations["earlier-session-raised:" + type(ex).__name__] += 1
    ctx.probe("earlier-session")


PRE_OPS = ["compute_stats", "compute_stats_basic", "collapse", "bandpass", "read_block"]


def gen_pre(rng, N):
    """Earlier calls on the SAME reader object (a realistic session); they must not influence later results."""
    out = []
    for _ in range(rng.choice([1, 1, 2])):
        st = rng.randint(0, N - 1)
        out.append({"op": rng.choice(PRE_OPS), "start": st, "nsamps": rng.randint(1, N - st), "gulp": rng.randint(1, N + 2)})
    r = rng.random()
    if r < 0.25:
        # a call the library refuses by itself (range beyond the end of the data): the object is used again afterwards
        out.append({"op": rng.choice(PRE_OPS), "start": 0, "nsamps": 1, "gulp": rng.randint(1, N + 2), "bad": rng.choice(["start-beyond-end", "range-beyond-end"])})
    elif r < 0.45:
        # the caller modifies, in place, arrays the library handed out (they are the caller's: plotting code shifts the
        # frequency axis to channel edges, rescales a block, ...)
        out.append({"op": "scribble", "start": 0, "nsamps": 1, "gulp": 1})
    rng.shuffle(out)
    return out


def run_pre(reader, pre, ctx) -> None:
    for o in pre:
        st, ns = o["start"], o["nsamps"]
        if o.get("bad"):
            N = int(reader.header.nsamples)
            st, ns = (N + 3, 2) if o["bad"] == "start-beyond-end" else (max(0, N - 1), 5)
            ctx.probe("pre-history:call-the-library-refuses")
        try:
            if o["op"] == "scribble":
                ctx.probe("pre-history:caller-modifies-returned-arrays")
                hdr = reader.header
                for attr in ("chan_freqs",):
                    arr = getattr(hdr, attr, None)
                    if isinstance(arr, np.ndarray) and arr.flags.writeable:
                        arr += 0.5 * float(hdr.foff)
                blk = reader.read_block(0, 1)
                np.asarray(blk.data)[...] = 77
            elif o["op"] == "read_block":
                reader.read_block(st, ns)
            else:
                getattr(reader, o["op"])(gulp=o["gulp"], start=st, nsamps=ns, quiet=True)
        except Exception as e:  # noqa: BLE001 - the pre-history is context, not the call under test
            ctx.observations["pre-history-raised:" + type(e).__name__] += 1
        ctx.probe("pre-history-call")


def fixup(sc):
    f = sc["files"]
    if f["nbits"] not in (1, 2, 4, 8, 16, 32) or f["nchans"] < 1 or (f["nchans"] * f["nbits"]) % 8:
        return None
    f["nsamps"] = [n for n in f["nsamps"] if n >= 1][:3]
    if not f["nsamps"] or not sc["ops"]:
        return None
    f["pad"] = (list(f.get("pad") or []) + [0, 0, 0])[: len(f["nsamps"])]
    N = sum(f["nsamps"])
    sc["start"] = max(0, min(sc["start"], N - 1))
    if sc["nsamps"] is not None:
        sc["nsamps"] = max(1, min(sc["nsamps"], N - sc["start"]))
    for o in sc["ops"]:
        if o["gulp"] is not None:
            o["gulp"] = max(1, o["gulp"])
        if "start" in o:
            o["start"] = max(0, min(o["start"], N - 1))
            if o["nsamps"] is not None:
                o["nsamps"] = max(1, min(o["nsamps"], N - o["start"]))
    for o in sc.get("pre", []):
        o["start"] = max(0, min(o["start"], N - 1))
        o["nsamps"] = max(1, min(o["nsamps"], N - o["start"]))
        o["gulp"] = max(1, o["gulp"])
    if sc["name"] == "read_chan":
        sc["params"]["ichan"] = max(0, min(sc["params"]["ichan"], f["nchans"] - 1))
    if sc["name"] == "dedisperse" and (f["nchans"] < 2 or sc["params"]["dm"] < 0):
        return None
    sc["faults"] = [x for x in sc["faults"] if 0 <= x.get("op", -1) < len(sc["ops"])]
    return sc


def nontrivial(sc, ctx) -> bool:
    return ctx.probes.get("compared-result", 0) > 0


def two_pass(X):
    x = X.astype(np.float64)
    n = x.shape[0]
    mean = x.mean(axis=0)
    d = x - mean
    m2 = (d ** 2).sum(axis=0)
    var = m2 / n
    with np.errstate(divide="ignore", invalid="ignore"):
        skew = np.where(m2 > 0, (d ** 3).sum(axis=0) / n / np.power(var, 1.5), 0.0)
        kurt = np.where(m2 > 0, (d ** 4).sum(axis=0) / n / (var ** 2) - 3.0, np.nan)
    return {"count": n, "mean": mean, "var": var, "skew": skew, "kurt": kurt, "min": x.min(axis=0), "max": x.max(axis=0)}


def call(name, reader, params, gulp, start, nsamps, allocator=None):
    kw = {"gulp": nint(gulp), "start": nint(start), "nsamps": nint(nsamps), "quiet": True}
    if gulp is None:
        del kw["gulp"]
    if allocator is not None:
        kw["allocator"] = allocator
    if name == "collapse":
        return np.asarray(reader.collapse(**kw).data)
    if name == "bandpass":
        return np.asarray(reader.bandpass(**kw).data)
    if name == "read_chan":
        return np.asarray(reader.read_chan(params["ichan"], **kw).data)
    if name == "dedisperse":
        return np.asarray(reader.dedisperse(params["dm"], **kw).data)
    if name in ("compute_stats", "compute_stats_basic"):
        getattr(reader, name)(**kw)
        st = reader.chan_stats
        out = {"count": np.array(st.moments["count"]), "mean": np.array(st.mean), "var": np.array(st.var),
               "min": np.array(st.minima), "max": np.array(st.maxima)}
        if name == "compute_stats":
            out["skew"] = np.array(st.skew)
            out["kurt"] = np.array(st.kurtosis)
        return out
    raise AssertionError(name)


def definition(name, X, params, delays, nchans):
    """In-memory definition on the selected samples X; returns (want, maxdelay)."""
    ns = X.shape[0]
    if name == "collapse":
        return X.astype(np.float64).sum(axis=1).astype(np.float32), 0
    if name == "bandpass":
        return X.astype(np.float64).sum(axis=0).astype(np.float32) / np.float32(ns), 0
    if name == "read_chan":
        return X[:, params["ichan"]].astype(np.float32), 0
    if name == "dedisperse":
        md = T.dedisp_domain(delays, ns)
        no = ns - md
        acc = np.zeros(no, dtype=np.float64)
        for c in range(nchans):
            acc += X[delays[c] : delays[c] + no, c].astype(np.float64)
        return acc.astype(np.float32), md
    return two_pass(X), 0


def execute(sc, ctx) -> None:
    from sigpyproc.readers import FilReader

    from sim.core import Rejected

    spec, name, params = sc["files"], sc["name"], sc["params"]
    fs = filgen.write_fileset(ctx.root, spec)
    N, nbits, nchans = fs.nsamples, spec["nbits"], spec["nchans"]
    if nbits < 8:
        ctx.probe("sub-byte")
    if spec.get("big"):
        ctx.probe("big-blocks")
    if spec.get("mode") == "gappy":
        ctx.probe("data-with-blank-stretches")
    if spec.get("mode") == "bits":
        ctx.probe("full-range-data")
    ctx.sig += [name, f"nbits{nbits}", "multi" if len(spec["nsamps"]) > 1 else "single"]
    bounds = list(np.cumsum(spec["nsamps"]))[:-1]

    with SimDisk(ctx, sc["faults"]) as sim:
        if sc.get("earlier"):
            run_earlier_session(sc, ctx, sim)
        reader = open_reader("C06", fs.paths)
        delays = None
        if name == "dedisperse":
            delays = np.atleast_1d(np.asarray(reader.header.get_dmdelays(params["dm"])))
        if sc.get("pre"):
            sim.begin_op(-1, budget=100000)
            run_pre(reader, sc["pre"], ctx)
        results = []
        windows = []
        first_bytes = None
        for i, op in enumerate(sc["ops"]):
            gulp = op["gulp"]
            if gulp is None:
                ctx.probe("default-gulp")
            start = op.get("start", sc["start"])
            nsamps = op["nsamps"] if "start" in op else sc["nsamps"]
            ns = N - start if nsamps is None else nsamps
            X = fs.samples[start : start + ns]
            eof = "toEOF" if start + ns == N else "beforeEOF"
            if "start" in op:
                ctx.probe("second-window-on-same-reader")
            if eof == "beforeEOF":
                ctx.probe("sub-range-before-EOF")
            if start > 0:
                ctx.probe("start>0")
                if nsamps is None:
                    ctx.probe("start>0-with-default-nsamps")
            try:
                want, md = definition(name, X, params, delays, nchans)
            except Rejected:
                if i == 0:
                    raise
                continue  # the shifted window is shorter than the dispersion sweep: not in the domain
            if name == "dedisperse" and md > 0:
                ctx.probe("dedisperse:maxdelay>0")
            gnum = 16384 if gulp is None else gulp
            g_eff, skip = gnum, 0
            if name == "dedisperse":
                g_eff, skip = max(2 * md, gnum), md
                if g_eff != gnum:
                    ctx.probe("dedisperse:gulp-raised-to-2maxdelay")
            eff = min(g_eff, ns)
            nblk = blocks_of(ns, eff, skip)
            if nblk >= 3:
                ctx.probe(">=3-blocks")
            if eff > skip and (ns - skip) % (eff - skip) != 0 and nblk >= 2:
                ctx.probe("partial-last-block")
            if gnum > ns:
                ctx.probe("gulp>range")
            if any(start < b < start + ns and (b - start) % max(1, eff - skip) != 0 for b in bounds):
                ctx.probe("block-across-file-boundary")
            sim.begin_op(i, budget=16 * (nblk + 2) * (len(spec["nsamps"]) + 2) + 64)
            fired0 = sum(ctx.faults.values())
            info = {"api": name, "params": params, "gulp": gulp, "start": start, "nsamps": ns, "N": N, "nbits": nbits,
                    "nchans": nchans, "eof": eof, "nblocks": nblk, "maxdelay": md, "op_index": i, "pre": sc.get("pre", [])}
            raised = None
            got = None
            alloc = None
            inner = {}
            if op.get("reentrant") and not sc["faults"]:
                def alloc(n, _inner=inner):
                    # a callback the caller owns, running in the middle of the call: the same reduction on
                    # the same window through ANOTHER reader, to completion; then the buffer is handed out
                    if "got" not in _inner:
                        _inner["got"] = None
                        rb = open_reader("C06", fs.paths)
                        _inner["got"] = call(name, rb, params, max(1, ns // 2), start, nsamps)
                        rb._file.close()
                    return bytearray(n)

                ctx.probe("reentrant-call-inside-allocator")
                sim.begin_op(i, budget=64 * (nblk + 4) * (len(spec["nsamps"]) + 2) + 256)
            if op.get("switch") is not None and not sc["faults"] and alloc is None:
                other = os.path.join(ctx.root, "other-beam")
                if not os.path.isdir(other):
                    os.makedirs(other)
                    fs_b = filgen.write_fileset(other, {**{k: v for k, v in spec.items() if k != "hv"}, "vseed": (int(spec.get("vseed", 0)) * 7 + 13) % 65521}, stem="beamB")
                    other_paths = fs_b.paths
                else:
                    other_paths = sorted(os.path.join(other, f) for f in os.listdir(other) if f.endswith(".fil"))

                def switch_hook(_paths=other_paths):
                    rb = FilReader(_paths)
                    try:
                        call(name, rb, params, gulp, start, nsamps)
                    finally:
                        rb._file.close()

                sim.after_read = switch_hook
                sim.after_read_at = sim.calls["r"] + int(op["switch"])
                ctx.probe("task-switch-after-a-read")
                sim.begin_op(i, budget=64 * (nblk + 4) * (len(spec["nsamps"]) + 2) + 256)
                sim.after_read_at = sim.calls["r"] + int(op["switch"])
            try:
                got = call(name, reader, params, gulp, start, nsamps, allocator=alloc)
            except SimLivelock as e:
                raise Violation(f"C06/{name}/livelock/{eof}", str(e), info) from None
            except Violation:
                raise
            except Exception as e:  # noqa: BLE001
                raised = e
            sim.after_read = None
            fault = sum(ctx.faults.values()) > fired0
            if fault and any(f.get("_done") and f["op"] == i and f["call"] >= len(spec["nsamps"]) for f in sim.faults):
                ctx.probe("fault-in-block>=1")
            tag = f"{eof}/{'fault' if fault else 'nofault'}"
            info["fault"] = fault

            def mk(clause, detail, _tag=tag, _info=info):
                return Violation(f"C06/{name}/{clause}/{_tag}", detail, _info)

            ctx.sig.append(f"{name}:{'raise' if raised is not None else 'ok'}:{tag}:{min(nblk, 3)}")
            if raised is not None:
                ctx.log("call", i, name, gulp, type(raised).__name__)
                if not fault:
                    raise mk("raised", repr(raised)[:300])
                continue
            if inner.get("got") is not None:
                gi = inner["got"]
                if isinstance(want, dict):
                    compare_stats(gi, want, name, lambda c, d: mk("inner-call-" + c, d))
                elif gi.shape != want.shape or np.any(np.abs(gi.astype(np.float64) - want.astype(np.float64)) > 1e-6 * np.maximum(1.0, np.abs(want))):
                    raise mk("inner-call-wrong-values", "the call made from inside the allocator callback returned a wrong result")
            if isinstance(want, dict):
                compare_stats(got, want, name, mk)
                ctx.log("call", i, name, gulp, start, ns, [round(float(v), 3) for v in got["mean"]])
            else:
                if got.shape != want.shape:
                    raise mk("length", f"result has {got.shape[0]} samples, definition has {want.shape[0]}")
                if name == "bandpass":
                    bad = np.abs(got.astype(np.float64) - want.astype(np.float64)) > 1e-6 * np.maximum(1.0, np.abs(want))
                else:
                    bad = got.astype(np.float32) != want
                if bad.any():
                    j = int(np.argmax(bad))
                    raise mk("wrong-values", f"{int(bad.sum())} of {bad.size} differ, first at {j}: got {got[j]!r} want {want[j]!r}")
                ctx.log("call", i, name, gulp, start, ns, zlib.crc32(np.ascontiguousarray(got).tobytes()))
            ctx.probe("compared-result")
            ctx.probe(f"ok:{name}")
            if results and not isinstance(results[0], dict) and first_bytes is not None:
                # the array returned by the FIRST call is still held by the caller: a later call must not change it
                if np.ascontiguousarray(results[0]).tobytes() != first_bytes:
                    raise Violation(f"C06/{name}/held-result-changed-by-a-later-call", "", info)
                ctx.probe("held-result-rechecked")
            if not results and not isinstance(got, dict):
                first_bytes = np.ascontiguousarray(got).tobytes()
            results.append(got)
            windows.append((start, ns))
        if len(results) == 2 and windows[0] == windows[1]:
            ctx.probe("two-gulps-compared")
            if not isinstance(results[0], dict) and name != "bandpass" and not filgen.same_bits(results[0], results[1]):
                raise Violation(f"C06/{name}/gulp-dependence", "results differ bitwise between two gulps", {"api": name})
        reader._file.close()


def compare_stats(got, want, name, mk) -> None:
    n = want["count"]
    if not np.all(np.asarray(got["count"]).astype(np.float64) == float(n)):
        raise mk("count", f"count {got['count'].tolist()} != {n}")
    for k in ("min", "max"):
        if not np.array_equal(got[k].astype(np.float64), want[k]):
            raise mk(k, f"{got[k].tolist()} != {want[k].tolist()}")
    std = np.sqrt(want["var"])
    if np.any(np.abs(got["mean"] - want["mean"]) > 1e-4 * (1 + np.abs(want["mean"]) + std)):
        raise mk("mean", f"{got['mean'].tolist()} vs {want['mean'].tolist()}")
    if np.any(np.abs(got["var"] - want["var"]) > 1e-3 * want["var"] + 1e-4):
        raise mk("var", f"{got['var'].tolist()} vs {want['var'].tolist()}")
    for k in got:
        if not np.all(np.isfinite(got[k])):
            raise mk("non-finite", f"{k}: {got[k].tolist()}")
    if name == "compute_stats" and n >= 2:
        nz = want["var"] > 0
        if np.any(np.abs(got["skew"] - want["skew"])[nz] > 5e-3 * (1 + np.abs(want["skew"][nz]))):
            raise mk("skew", f"{got['skew'].tolist()} vs {want['skew'].tolist()}")
        if np.any(got["skew"][~nz] != 0):
            raise mk("skew-of-constant-channel", f"{got['skew'].tolist()}")
        if np.any(np.abs(got["kurt"] - want["kurt"])[nz] > 2e-2 * (1 + np.abs(want["kurt"][nz]))):
            raise mk("kurtosis", f"{got['kurt'].tolist()} vs {want['kurt'].tolist()}")
