"""C20 - a partially written output is always a valid prefix of the final file."""
from __future__ import annotations

import gc
import os
import shutil
import zlib

import numpy as np

from sim import filgen
from sim import transforms as T
from sim.core import fpath, open_reader, Rejected, SimCrash, SimLivelock, Violation
from sim.disk import SimDisk

from .c07 import warm as _warm07

ID = "C20"
VARY_WRITE_CAP = True  # W4: partial raw data writes (sim.disk)
VARY_KNOBS = True  # module-level tuning constants of the library are lowered in some runs (sim.core.lower_tuning_constants)
SHRINK_SIMPLE = {"write_cap": None, "knobs": None}
GUARD_KERNELS = True
SHRINK_LISTS = ()
SHRINK_MIN = {"nchans": 1, "nbits": 1, "gulp": 1, "tfactor": 1, "ffactor": 1, "nsub": 1, "batch_size": 1, "chanpersub": 2}
WRITERS = T.NAMES + ["clean_rfi", "to_file", "to_tim", "to_spec"]
# one execution = a whole enumeration of fault points: keep minimisation cheap
SHRINK_EXECS, SHRINK_PER_CLASS, SHRINK_TOTAL, SHRINK_SECONDS = 24, 2, 4, 40
RUN_WALL_S = 600  # a run enumerates thousands of fault points


def warm() -> None:
    _warm07()


def generate(rng, tier) -> dict:
    name = rng.choice(WRITERS)
    tname = name if name in T.NAMES else "extract_samps"
    for _ in range(50):
        nbits = rng.choice([1, 2, 4, 8, 8, 32])
        chans = [c for c in (1, 2, 4, 8) if (c * nbits) % 8 == 0]
        if T.needs_disp_band(tname):
            chans = [c for c in chans if c > 1]
        nchans = rng.choice(chans)
        nfiles = rng.choice([1, 1, 2])
        mx = 12 if tier == "quick" else 24
        counts = [rng.randint(1, max(1, mx // nfiles)) for _ in range(nfiles)]
        big = rng.random() < (0.07 if tier == "quick" else 0.1)
        if big:  # writes of several kB (page-sized thresholds); offsets/truncations are sampled there
            nchans = rng.choice([c for c in (64, 128) if (c * nbits) % 8 == 0])
            counts = [rng.randint(100, 400)]
            nfiles = 1
        spec = {"nbits": nbits, "nchans": nchans, "nsamps": counts, "pad": filgen.gen_pads(rng, nfiles, 0), "vseed": rng.randrange(1 << 16),
                "mode": "small" if name in ("downsample", "subband", "remove_zerodm", "clean_rfi", "to_tim", "to_spec") else "bits"}
        if nbits == 32 and spec["mode"] == "bits":
            spec["mode"] = "ramp"  # survivors are compared as float values: keep them finite
        if T.needs_disp_band(tname):
            spec.update(T.DISP_BAND)
            spec["foff"] = -10.0 * 8 / max(8, nchans)
        if big:
            spec["big"] = True
            if rng.random() < 0.6 and nbits >= 8:
                spec["mode"] = "blank128"  # whole written blocks of >= 4096 zero bytes, also as the LAST blocks of the product
                counts[0] = rng.choice([256, 384, 256 + rng.randint(1, 100)])
                spec["nsamps"] = counts
        N = sum(counts)
        r = rng.random()
        if r < 0.5:
            start, nsamps = 0, None
        elif r < 0.65:
            start, nsamps = rng.randint(0, N - 1), None
        else:
            start = rng.randint(0, N - 1)
            nsamps = rng.randint(1, N - start)
        ns = N - start if nsamps is None else nsamps
        try:
            params = T.gen_params(tname, rng, spec, ns) if name in T.NAMES else {}
        except Rejected:
            continue
        if big and name == "extract_chans":  # keep the number of output files (hence fault points x survivors) small
            params["chans"] = params["chans"][:3]
        if big and name == "extract_bands":
            params.update({"chanstart": 0, "nchans": nchans, "chanpersub": nchans // 2})
        if name == "clean_rfi":
            params = {"mask_value": rng.randint(0, 1), "freq_mask_chans": [c for c in range(nchans) if rng.random() < 0.3]}
        break
    gulp = max(1, rng.choice([1, 2, 3, rng.randint(1, max(1, ns)), ns, ns + 2]))
    if spec.get("big"):
        gulp = max(min(20, ns), rng.choice([64, 100, rng.randint(min(20, ns), ns), ns]))
        if spec.get("mode") == "blank128":
            gulp = rng.choice([64, 128, 64, 32 if nchans >= 128 else 64])  # whole blocks inside a zero stretch
    return {"files": spec, "name": name, "params": params, "start": start, "nsamps": nsamps, "gulp": gulp}


def fixup(sc):
    from .c07 import fixup as f07

    tmp = {"files": sc["files"], "name": sc["name"] if sc["name"] in T.NAMES else "extract_samps", "params": sc["params"],
           "start": sc["start"], "nsamps": sc["nsamps"], "ops": [{"gulp": sc["gulp"]}], "faults": []}
    out = f07(tmp)
    if out is None:
        return None
    sc["start"], sc["nsamps"], sc["gulp"] = out["start"], out["nsamps"], out["ops"][0]["gulp"]
    return sc


def nontrivial(sc, ctx) -> bool:
    return ctx.probes.get("survivor-read-back", 0) > 0


# ------------------------------------------------------------------ invoking a writer
def invoke(name, reader, outdir, sc):
    params, gulp, start, nsamps = sc["params"], sc["gulp"], sc["start"], sc["nsamps"]
    if name in T.NAMES:
        return T.call(name, reader, outdir, params, gulp, start, nsamps)
    if name == "clean_rfi":
        hdr = reader.header
        fm = [(float(hdr.fch1 + c * hdr.foff), float(hdr.fch1 + c * hdr.foff)) for c in params["freq_mask_chans"]]
        out, _mask = reader.clean_rfi(method="mad", threshold=3, freq_mask=fm or None, mask_value=params["mask_value"],
                                      outfile_name=os.path.join(outdir, "out_clean.fil"), gulp=gulp, start=start, nsamps=nsamps, quiet=True)
        return [out]
    ns = reader.header.nsamples - start if nsamps is None else nsamps
    if name == "to_file":
        return [reader.read_block(start, ns).to_file(os.path.join(outdir, "out_block.fil"))]
    if name == "to_tim":
        return [reader.collapse(gulp=gulp, quiet=True).to_tim(os.path.join(outdir, "out.tim"))]
    if name == "to_spec":
        return [reader.collapse(gulp=gulp, quiet=True).rfft().to_spec(os.path.join(outdir, "out.spec"))]
    raise AssertionError(name)


def list_outputs(outdir):
    return sorted(os.path.join(outdir, f) for f in os.listdir(outdir))


def slurp(path) -> bytes:
    with open(path, "rb") as fp:
        return fp.read()


# ------------------------------------------------------------------ survivor oracle
def check_survivor(name, content: bytes, final: bytes, label, mk, ctx, *, whole_plan=True):
    """`content` must be a complete header + prefix of `final`'s data, and the library's own
    reader must open it and return exactly the first k complete samples."""
    from sigpyproc.readers import FilReader

    try:
        ffields, fhl = filgen.parse_header(final)
    except filgen.HeaderError as e:  # the golden output itself is malformed
        raise mk("final-file-header-malformed", f"{label}: {e}") from None
    if len(content) < fhl:
        return "torn-header"  # outside the statement (truncations at or after the header)
    if final[: len(content)] != content:
        raise mk("survivor-not-a-prefix-of-final", f"{label}: {len(content)} bytes on disk are not a prefix of the {len(final)}-byte final file")
    nbits, nchans = ffields["nbits"], ffields["nchans"]
    k = (len(content) - fhl) * 8 // nbits // nchans
    path = os.path.join(ctx.root, "survivor.fil")
    with open(path, "wb") as fp:
        fp.write(content)
    try:
        r = FilReader(path)
    except Exception as e:  # noqa: BLE001
        raise mk("survivor-does-not-open", f"{label}: {len(content)} bytes ({k} whole samples): {e!r}") from None
    try:
        if r.header.nsamples != k:
            raise mk("survivor-sample-count", f"{label}: reader infers {r.header.nsamples}, file holds {k} whole samples")
        if k >= 1:
            gold = filgen.unpack_model(final[fhl:], nbits)[: k * nchans].reshape(k, nchans)
            try:
                got = np.asarray(r.read_block(0, k).data)
            except Exception as e:  # noqa: BLE001
                raise mk("survivor-read_block-raised", f"{label}: k={k}: {e!r}") from None
            if got.shape != (nchans, k) or not np.array_equal(got.T.astype(np.float64), gold.astype(np.float64), equal_nan=True):
                raise mk("survivor-wrong-samples", f"{label}: first {k} samples differ from the final file's")
            ctx.probe("survivor-read-back")
            if whole_plan and (len(content) - fhl) * 8 == k * nbits * nchans:
                blocks = []
                try:
                    for n, _ii, d in r.read_plan(gulp=3, quiet=True):
                        blocks.append(np.array(d).reshape(n, nchans))
                except Exception as e:  # noqa: BLE001
                    raise mk("survivor-read_plan-raised", f"{label}: whole-sample survivor k={k}: {e!r}") from None
                allb = np.concatenate(blocks) if blocks else np.zeros((0, nchans))
                if allb.shape != gold.shape or not np.array_equal(allb.astype(np.float64), gold.astype(np.float64), equal_nan=True):
                    raise mk("survivor-read_plan-wrong", f"{label}: k={k}")
                ctx.probe("survivor-read_plan")
    finally:
        r._file.close()
        os.unlink(path)
    return "ok"


# ------------------------------------------------------------------ execution
def execute(sc, ctx) -> None:
    from sigpyproc.readers import FilReader

    spec, name = sc["files"], sc["name"]
    fs = filgen.write_fileset(ctx.root, spec)
    N = fs.nsamples
    start, nsamps = sc["start"], sc["nsamps"]
    ns = N - start if nsamps is None else nsamps
    if name == "subband":
        d = T.ref_delays(spec["nchans"], sc["params"]["dm"], spec["fch1"], spec["foff"], spec["tsamp"])
        if d.max() >= ns:
            raise Rejected("dm out of domain")
    if name in ("to_tim", "to_spec") and (start != 0 or nsamps is not None):
        start, nsamps, ns = 0, None, N
        sc = {**sc, "start": 0, "nsamps": None}
    ctx.probe(f"writer:{name}")
    if spec.get("big"):
        ctx.probe("big-writes")
    ctx.sig += [name, f"nbits{spec['nbits']}"]
    info = {"api": name, "params": sc["params"], "gulp": sc["gulp"], "start": start, "nsamps": ns, "N": N,
            "nbits": spec["nbits"], "nchans": spec["nchans"]}

    def mk_for(point):
        def mk(clause, detail):
            return Violation(f"C20/{name}/{clause}", f"[{point}] {detail}", {**info, "point": point})
        return mk

    # ---------------- (1) golden run with snapshots after every write call
    gold_dir = os.path.join(ctx.root, "gold")
    os.mkdir(gold_dir)
    snaps = {}  # path -> last snapshot bytes
    writes = []  # (kind, relpath, size_before, grew)
    mk = mk_for("golden")
    with SimDisk(ctx, []) as sim:
        def hook(kind, writer, payload, size_before, size_after, append_only):
            path = fpath(writer.file_obj.name)
            cur = slurp(path)
            prev = snaps.get(path)
            rel = ctx.rel(path)
            if not append_only:
                raise mk("write-not-at-end-of-file", f"{kind} #{len(writes)} on {rel}")
            if prev is None:
                # first write to this file: must leave exactly one complete header
                try:
                    _f, hl = filgen.parse_header(cur)
                except filgen.HeaderError as e:
                    raise mk("first-write-is-not-a-complete-header", f"{rel}: {e}") from None
                if hl != len(cur):
                    raise mk("data-before-header-complete", f"{rel}: {len(cur)} bytes after first write, header is {hl}")
            else:
                if cur[: len(prev)] != prev:
                    raise mk("rewrote-earlier-bytes", f"{kind} #{len(writes)} on {rel}")
                # every later write appends WHOLE samples at the depth the file's own header declares
                try:
                    hf, hl = filgen.parse_header(cur)
                except filgen.HeaderError as e:
                    raise mk("header-no-longer-parses", f"{rel}: {e}") from None
                unit = hf["nbits"] * hf["nchans"]
                if ((len(cur) - hl) * 8) % unit:
                    raise mk("partial-sample-after-a-write", f"{kind} #{len(writes)} on {rel}: {len(cur) - hl} data bytes are not a whole number of {hf['nchans']}-channel {hf['nbits']}-bit samples (the header's own declaration)")
                if kind == "cwrite":
                    nel = int(np.asarray(payload).size)
                    if (len(cur) - len(prev)) * 8 != nel * hf["nbits"]:
                        raise mk("written-at-other-width-than-declared", f"{kind} #{len(writes)} on {rel}: {nel} values added {len(cur) - len(prev)} bytes, the header declares {hf['nbits']} bits per value")
            snaps[path] = cur
            writes.append((kind, rel, size_before, size_after - size_before))

        sim.write_hook = hook
        sim.fine_grained = True
        reader = open_reader("C20", fs.paths)
        sim.begin_op(0, budget=100000)  # after opening: R below counts the reads of the call itself (as the re-runs do)
        try:
            outs = invoke(name, reader, gold_dir, sc)
        except SimLivelock as e:
            raise mk("livelock", str(e)) from None
        R = sim.calls["r"]
        # at normal return the disk already holds the final file (before any close / GC)
        finals = {p: slurp(p) for p in list_outputs(gold_dir)}
        if name in T.NAMES:
            # ... and "complete" means the product the call's arguments define (every sample of it), not merely
            # something that is a prefix of itself: the golden files are held against the whole-array definition
            from .c07 import compare_output

            try:
                delays = np.atleast_1d(np.asarray(reader.header.get_dmdelays(sc["params"]["dm"]))) if name == "subband" else None
                exps = T.define(name, fs.samples[start : start + ns], fs.samples, spec, sc["params"], delays)
                if name == "remove_zerodm" and not T.in_range_for_zerodm(exps[0], spec["nbits"]):
                    exps = None
            except Rejected:
                exps = None
            if exps is not None:
                for pth, exp in zip(outs, exps):
                    compare_output(pth, exp, exps[0].data.shape[0], lambda c, d: mk("file-at-return-is-not-the-defined-product/" + c, d), ctx)
                ctx.probe("golden-product-compared-with-its-definition")
        for p, snap in snaps.items():
            if finals.get(p) != snap:
                raise mk("bytes-written-outside-the-write-seam", f"{ctx.rel(p)}: file differs from the snapshot after its last write call")
        del reader
        gc.collect()
        for p in finals:
            if slurp(p) != finals[p]:
                raise mk("not-complete-at-return", f"{ctx.rel(p)} changed after the call returned (close/GC wrote more)")
    writes = list(writes)
    K = len(writes)
    if K >= 4:
        ctx.probe("K>=4")
    ctx.log("golden", name, K, R, [(os.path.basename(p), len(b), zlib.crc32(b)) for p, b in sorted(finals.items())])
    final_by_name = {os.path.basename(p): b for p, b in finals.items()}
    for p, b in finals.items():
        try:
            filgen.parse_header(b)
        except filgen.HeaderError as e:
            raise mk("final-file-header-malformed", f"{ctx.rel(p)}: {e}") from None

    # ---------------- (1b) the same call into a directory where every output path ALREADY EXISTS with
    # longer, unrelated content (a re-run into the same directory): the snapshot invariants must hold
    # unchanged - in particular the first write must leave exactly one complete header (no stale tail)
    # and the file at return must equal the golden one.
    dirty_dir = os.path.join(ctx.root, "dirty")
    os.mkdir(dirty_dir)
    for base, fin in final_by_name.items():
        with open(os.path.join(dirty_dir, base), "wb") as fp:
            fp.write(bytes([0xEE]) * (len(fin) + 37))
    snaps.clear()
    del writes[:]
    mk = mk_for("pre-existing-output")
    with SimDisk(ctx, []) as sim:
        sim.write_hook = hook
        sim.begin_op(0, budget=100000)
        reader = FilReader(fs.paths)
        try:
            invoke(name, reader, dirty_dir, sc)
        except SimLivelock as e:
            raise mk("livelock", str(e)) from None
        del reader
        for p in list_outputs(dirty_dir):
            if slurp(p) != final_by_name.get(os.path.basename(p)):
                raise mk("stale-content-survives", f"{ctx.rel(p)}: output written over an existing file differs from the output written into a fresh directory")
    ctx.probe("pre-existing-output-run")
    shutil.rmtree(dirty_dir, ignore_errors=True)

    # ---------------- (2) enumerate fault points
    def rerun(fault, point):
        """Re-run the call with one fault; returns (raised, survivors-at-crash, survivors-after-unwind)."""
        d = os.path.join(ctx.root, "crash")
        shutil.rmtree(d, ignore_errors=True)
        os.mkdir(d)
        at_crash = {}
        with SimDisk(ctx, [fault]) as sim:
            def crash_hook():
                for p in list_outputs(d):
                    at_crash[os.path.basename(p)] = slurp(p)
            sim.crash_hook = crash_hook
            sim.begin_op(0, budget=100000)
            reader = FilReader(fs.paths)
            raised = None
            # keep only (type, repr): holding the exception would keep the library's frames (and
            # its writer objects) alive, and "what unwinding + refcount finalisation writes" is
            # exactly what the at_crash/after comparison is meant to observe
            try:
                invoke(name, reader, d, sc)
            except SimCrash as e:
                raised = SimCrash(str(e))
            except SimLivelock as e:
                raise mk_for(point)("livelock", str(e)) from None
            except Violation:
                raise
            except Exception as e:  # noqa: BLE001
                raised = (type(e).__name__, repr(e)[:200])
            fired = bool(sim.faults[0].get("_done"))
            del reader
        after = {os.path.basename(p): slurp(p) for p in list_outputs(d)}
        return raised, fired, at_crash, after

    def survivors_ok(files, point, mkp):
        for base, content in sorted(files.items()):
            fin = final_by_name.get(base)
            if fin is None:
                raise mkp("unexpected-output-file", base)
            res = check_survivor(name, content, fin, base, mkp, ctx)
            ctx.log("survivor", point, base, len(content), res)

    def crash_states(at_crash, after, point, mkp, check_after=True):
        """A real process death leaves the disk as it was at the crash instant; the simulated one also
        unwinds Python frames (ExitStack, __exit__, finalisers).  Both states must be valid prefixes;
        a difference between them is recorded (it means unwinding wrote), not judged by itself."""
        survivors_ok(at_crash, point + "@crash-instant", mkp)
        if at_crash != after:
            ctx.observations["unwinding-changed-files"] += 1
            if check_after:
                survivors_ok(after, point + "@after-unwinding", mkp)

    nbits_out_cache = {}
    for k in range(K):
        kind, rel, size_before, grew = writes[k]
        # W1: crash right after write k
        point = f"W1@{k}"
        mkp = mk_for(point)
        raised, fired, at_crash, after = rerun({"kind": "W1", "op": 0, "call": k, "arg": 0}, point)
        ctx.probe("W1-points")
        if not fired or not isinstance(raised, SimCrash):
            raise mkp("crash-swallowed", f"fired={fired} raised={raised!r}")
        crash_states(at_crash, after, point, mkp)
        if len(final_by_name) > 1 and len(after) < len(final_by_name) or (len(final_by_name) > 1 and k >= 1):
            ctx.probe("multi-output-crashed-between-files")
        if name in ("extract_chans", "extract_bands") and sc["params"].get("batch_size", 200) < len(final_by_name) and len(after) > sc["params"]["batch_size"]:
            ctx.probe("crash-during-second-batch")
        # W2 / W3 at byte offsets of this write
        if grew <= 16 or sc.get("all_offsets"):
            js = list(range(grew))
        else:  # first bytes, around the middle sample boundary, last bytes
            stride_out = max(1, grew // max(1, min(sc["gulp"], ns)))
            mid = (grew // 2 // stride_out) * stride_out
            js = sorted({0, 1, 2, mid - 1, mid, mid + 1, grew - 2, grew - 1} & set(range(grew)))
        for j in js:
            for fk in ("W2", "W3"):
                if kind == "write" and size_before == 0:
                    if fk == "W2":
                        continue  # torn header: outside the statement
                point = f"{fk}@{k}+{j}"
                mkp = mk_for(point)
                raised, fired, at_crash, after = rerun({"kind": fk, "op": 0, "call": k, "arg": j}, point)
                ctx.probe(f"{fk}-points")
                if fk == "W2":
                    if not fired or not isinstance(raised, SimCrash):
                        raise mkp("crash-swallowed", f"fired={fired} raised={raised!r}")
                    crash_states(at_crash, after, point, mkp, check_after=False)
                    if spec["nbits"] < 8 or True:
                        fin = final_by_name.get(os.path.basename(rel))
                        if fin is not None and spec["nbits"] < 8:
                            ctx.probe("sub-byte-torn-mid-sample")
                else:
                    if not fired:
                        raise mkp("fault-did-not-fire", "")
                    if raised is None:
                        raise mkp("ENOSPC-swallowed", "the call returned normally although a write failed with ENOSPC")
                survivors_ok(after, point, mkp)
    # W5: crash at sampled input reads
    for r in sorted({0, 1, R // 2, R - 1} & set(range(R))):
        point = f"W5@{r}"
        mkp = mk_for(point)
        raised, fired, at_crash, after = rerun({"kind": "W5", "op": 0, "call": r, "arg": 0}, point)
        ctx.probe("W5-points")
        if not fired or not isinstance(raised, SimCrash):
            raise mkp("crash-swallowed", f"fired={fired} raised={raised!r}")
        crash_states(at_crash, after, point, mkp)

    # ---------------- (2b) E1: the process runs out of file descriptors during the call (a low `ulimit -n`, many
    # beams open, an extraction into hundreds of files).  The soft RLIMIT_NOFILE is set to "what is open now + m":
    # the (m+1)-th descriptor the call tries to open fails with a REAL EMFILE.  Allowed outcomes: the call raises
    # (and what is on disk is a set of valid prefixes), or it returns normally and every golden file is there, complete.
    import resource

    nout = len(final_by_name)
    for m in sorted({0, 1, 2, nout // 2 + 1, nout, nout + 1, nout + 3} if nout > 1 else {0, 1, 3}):
        point = f"E1@+{m}"
        mkp = mk_for(point)
        d = os.path.join(ctx.root, "crash")
        shutil.rmtree(d, ignore_errors=True)
        os.mkdir(d)
        raised = None
        with SimDisk(ctx, []) as sim:
            sim.begin_op(0, budget=100000)
            reader = FilReader(fs.paths)
            gc.collect()
            soft0, hard0 = resource.getrlimit(resource.RLIMIT_NOFILE)
            nopen = len(os.listdir("/proc/self/fd")) - 1  # minus the descriptor of the listing itself
            try:
                resource.setrlimit(resource.RLIMIT_NOFILE, (max(nopen + m, 3), hard0))
                try:
                    invoke(name, reader, d, sc)
                except SimLivelock as e:
                    raised = ("SimLivelock", str(e))
                except Violation:
                    raise
                except BaseException as e:  # noqa: BLE001
                    raised = (type(e).__name__, repr(e)[:200])
            finally:
                resource.setrlimit(resource.RLIMIT_NOFILE, (soft0, hard0))
            del reader
            gc.collect()
        if raised is not None and raised[0] == "SimLivelock":
            raise mkp("livelock", raised[1])
        after = {os.path.basename(pp): slurp(pp) for pp in list_outputs(d)}
        ctx.log("E1", m, raised[0] if raised else "ok", sorted((b, len(c)) for b, c in after.items()))
        if raised is None:
            ctx.probe("E1:call-succeeded")
            if after != final_by_name:
                missing = sorted(set(final_by_name) - set(after))
                short = sorted(b for b in after if b in final_by_name and after[b] != final_by_name[b])
                raise mkp("returned-normally-but-incomplete", f"with room for {m} more descriptors the call returned normally; missing {missing}, incomplete or different {short}")
        else:
            ctx.probe("E1:descriptor-exhaustion-raised")
            ctx.faults["E1"] += 1
            survivors_ok(after, point, mkp)

    # ---------------- (3) every byte-length truncation of every final file at or after the header
    for base, fin in sorted(final_by_name.items()):
        _f, hl = filgen.parse_header(fin)
        span = len(fin) - hl
        Ls = range(hl, len(fin) + 1) if span <= 512 else sorted({hl, hl + 1, len(fin) - 1, len(fin)} | {hl + (span * q) // 37 for q in range(37)})
        for L in Ls:
            point = f"trunc@{L - hl}"
            check_survivor(name, fin[:L], fin, base, mk_for(point), ctx, whole_plan=(L - hl) % max(1, span // 8 or 1) == 0)
            ctx.probe("truncations")
    ctx.io_steps += 0
