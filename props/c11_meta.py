"""C11 static metadata."""
LEVEL = "exploration"
QUICK_RUNS = 6400
THOROUGH_BUDGET_S = 600
RULE = (
    "seeded scenarios: Filterbank.fold (streaming, two different gulps, kernels.fold spied from the harness to observe the "
    "hit counts) on a FilReader over 1-2 harness-written files, and TimeSeries.fold; generated period/tsamp ratios (incl. "
    "near-integer), accel in {0, small, and values whose drift term a*tobs/2c is 0.3%..30% so that it moves samples across bins}, (nbins, nints, nbands) incl. nbands not dividing nchans, DM with 0<=maxdelay<nsamps, "
    "gulps incl. < 2*maxdelay and non-divisible; scenarios whose model phase lies within 1e-4 bin of an edge for any sample, "
    "or whose sub-integration/sub-band index is decided by float rounding, are rejected (counted). Oracle: per-sample cell "
    "model (sub-integration by time order, sub-band by channel order, documented phase formula in float64 on the "
    "float32-rounded tsamp/period/accel); hit counts == model and sum to (nsamps-maxdelay)*nchans; each non-empty cell == "
    "mean of its samples; cube identical for two gulps; a synthetic strictly periodic train occupies one bin in every "
    "sub-integration. Fault runs: R1/R2 on input (exact-or-raises). Non-trivial = a cube was compared with the model; "
    "distinct = distinct event digests among those."
)
PROBES = [">=3-blocks", "index-with-maxdelay>0", "nbands-not-dividing-nchans", "accel!=0", "accel-moves-bins", "exact-tie-samples", "near-integer-period-ratio",
          "two-gulps-compared", "counts-observed", "pulse-train", "kind:fil", "kind:tim", "gulp-raised-to-2maxdelay", "fault-raised", "pre-history-call", "default-gulp", "held-cube-rechecked", "tim-strided-input", "reentrant-fold-inside-allocator", "header-carries-its-own-accel"]
COMPONENTS = {
    "real": ["sigpyproc.base.Filterbank.fold", "sigpyproc.timeseries.TimeSeries.fold", "kernels.fold (compiled)", "FilReader.read_plan", "FoldedData container"],
    "simulated": ["io.FileIO -> SimFileIO (input read events/faults)", "kernels.fold wrapped by a recording pass-through (to read count_ar)", "input files (harness encoder)"],
    "stubbed": [],
}
ASSUMPTIONS = [
    "full-range folds only (the statement's quantifier has no sub-ranges)",
    "margin rule: scenarios with a model phase within 1e-4 bin of a bin edge are rejected, so float32-vs-float64 evaluation order cannot decide a verdict - except exact ties at accel == 0 (phase an exact integer in rational arithmetic of the float32 inputs, e.g. period = 2^m * tsamp), where the documented int(x + 0.5) is decided exactly: upper bin",
    "cells with no sample assigned are not compared (0/0 in the library)",
    "per-channel delays are those the library reports (C09)",
]

# dimensions added in seeded rounds 6 and 7
PROBES = list(PROBES) + ["integer-arguments-as-numpy-scalars"]

# dimensions added in seeded round 9
PROBES = list(PROBES) + ["long-fold(>=10^7-samples)", "period-a-few-float32-ulps-from-a-whole-number-of-samples"]
RULE = RULE + (" Round 9: 0.2% of runs (1% thorough) fold 1.2-1.7e7 samples with TimeSeries.fold at a period 0..3 float32 ulps from k*tsamp; the data are 0/1 (cell sums exact in "
               "float32); samples within 1e-4 bin of an edge carry no power and only widen the admissible interval [S/(n+a), S/n] of the two cells they may fall in.")

# dimensions added in seeded round 10
PROBES = list(PROBES) + ["long-fold(>2^24-values-per-cell)"]
RULE = RULE + " Round 10: 0.1% of runs fold a 32-64-channel 8-bit file holding more than 2^24 (sample, channel) values per cell; sparse 0/1 data keep the cell sums below 2^24 (exact in float32) while the hit counts exceed it."
