"""C19 static metadata."""
LEVEL = "exploration"
QUICK_RUNS = 6400
THOROUGH_BUDGET_S = 600
RULE = (
    "seeded scenarios over the 11 prange kernels (plus, at 10% of runs, 13 kernels that are serial today - fold, the bit unpackers/packers - so that a kernel that BECOMES multi-threaded is covered). mode=sim (decides): the kernel's own Python source with its prange "
    "bodies outlined runs on T in 1..4 virtual threads (static split or size-k chunks in scheduler order), baton "
    "passed at seeded bytecode boundaries (switch probability 0.02..0.5 per run); oracles: result bit-identical to the "
    "same source on one virtual thread and to a numpy definition, and the access-set oracle (no element written by "
    "two virtual threads, none written by one and read by another inside a parallel region). mode=compiled "
    "(cross-check, schedule not controlled): the njit kernel under set_num_threads(1..16) x "
    "set_parallel_chunksize({0,1,3}) x repeats on the worker's threading layer (even workers workqueue, odd workers "
    "omp), bit-identical across all and equal to the sequential Python definition. Non-trivial = more than one "
    "(virtual) thread and at least 2 loop iterations; distinct = distinct event digests (which include the "
    "recorded schedule) among those."
)
KERNELS = ["extract_tim", "extract_bpass", "mask_channels", "dedisperse", "subband", "invert_freq", "remove_zerodm",
           "compute_online_moments", "compute_online_moments_basic", "downsample_1d_mean_parallel", "downsample_2d_mean_parallel"]
# Kernels that are serial today; they are exercised at low rate so that one of them becoming multi-threaded
# (the statement says "every multi-threaded kernel") does not escape: compiled at 1..16 threads, and - if their
# source then contains a prange - on virtual threads too.
EXTRA = ["fold", "unpack1_8_big", "unpack1_8_little", "unpack2_8_big", "unpack2_8_little", "unpack4_8_big", "unpack4_8_little",
         "pack1_8_big", "pack1_8_little", "pack2_8_big", "pack2_8_little", "pack4_8_big", "pack4_8_little"]
PROBES = [">=2-threads-alive-at-a-switch", "extra-kernel-run", "degenerate-shape", "chunks>threads", "compiled:threads>=8", "compiled:chunksize>0",
          "compiled:layer:workqueue", "compiled:layer:omp", "compiled:iterations-just-above-threads-x-2^k"] + [f"sim:{k}" for k in KERNELS] + [f"compiled:{k}" for k in KERNELS]
COMPONENTS = {
    "real": ["mode=sim: the Python source of each kernel in sigpyproc/core/kernels.py (prange bodies outlined mechanically, nested njit helpers replaced by their py_func)",
             "mode=compiled: the njit-compiled kernels on numba's real thread pool (workqueue and omp layers)"],
    "simulated": ["mode=sim: numba's thread pool and scheduler (virtual threads = parked real threads released one at a time at sys.monitoring INSTRUCTION events)",
                  "array arguments wrapped in access-tracking proxies"],
    "stubbed": ["mode=sim does not see numba's lowering (fastmath, vectorisation): covered only by mode=compiled"],
}
ASSUMPTIONS = [
    "integer-valued inputs and power-of-two factors/weights so that arithmetic is exact; moments compared with |d| <= 1e-5*(|x|+scale)",
    "np.empty in a kernel is replaced by zeros in mode=sim (uninitialised memory is not a schedule effect)",
    "a violation seen only in mode=compiled cannot be replayed exactly (real scheduler): its replay re-runs the cell up to 200 times",
]


def worker_env(stripe):
    return {"NUMBA_THREADING_LAYER": "omp" if stripe % 2 else "workqueue", "NUMBA_NUM_THREADS": "16"}

# dimensions added in seeded rounds 6 and 7
PROBES = list(PROBES) + ["extreme-aspect-ratio:sim", "extreme-aspect-ratio:compiled"]

# dimensions added in seeded round 9
RULE = RULE + (" Round 9: the virtual-thread run models numba ARRAY reductions (`arr += x` on an array bound outside the prange: private per-thread copies added at the join) and fails "
               "when a floating-point one is fed by more than one thread; every array a kernel allocates is tracked as an object of its own.")

# dimensions added in seeded round 10
PROBES = list(PROBES) + ["buffer-longer-than-nsamps:sim", "buffer-longer-than-nsamps:compiled"]
RULE = RULE + " Round 10: 40% of mask_channels runs hand the kernel a buffer with 1-37 spectra of live data beyond nsamps (they must stay untouched); a third of the masks flag a single channel."
