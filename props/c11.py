"""C11 - folding puts every sample in exactly one bin fixed by the phase model."""
from __future__ import annotations

import os
import zlib
from fractions import Fraction

import numpy as np

from sim import filgen
from sim import transforms as T
from sim.core import nint, open_reader, Rejected, SimLivelock, Violation
from sim.disk import SimDisk

from .c02 import after_list_removal  # noqa: F401
from .c07 import blocks_of

ID = "C11"
VARY_KNOBS = True  # module-level tuning constants of the library are lowered in some runs (sim.core.lower_tuning_constants)
VARY_ARGFORM = True  # integer call arguments also arrive as numpy integer scalars
GUARD_KERNELS = True
SHRINK_LISTS = ("ops", "faults", "pre", ("files", "nsamps"))
SHRINK_MIN = {"nchans": 1, "nbits": 8, "gulp": 1, "nbins": 1, "nints": 1, "nbands": 1, "n": 10}
SHRINK_SIMPLE = {"knobs": None, "argform": "int"}
C = 299792458.0
TSAMP = 0.001


def warm() -> None:
    import tempfile

    from sigpyproc.readers import FilReader

    from sim.core import scratch_root

    root = tempfile.mkdtemp(dir=scratch_root())
    for nbits in (8, 32):
        spec = {"nbits": nbits, "nchans": 4, "nsamps": [40], "vseed": 1, "mode": "small", **T.DISP_BAND}
        fs = filgen.write_fileset(root, spec, stem=f"w{nbits}_")
        r = FilReader(fs.paths)
        r.fold(0.0103, 0.0, nbins=2, nints=2, nbands=2, gulp=16, quiet=True)
        r.collapse(quiet=True).fold(0.0103, nbins=2, nints=2)


def generate_long(rng) -> dict:
    """A fold of ten million samples at a period within a few float32 ulps of a whole number of samples: the phase
    error of a period that is off by one part in 10^7 reaches a whole bin only after ~10^7 samples.  No 600-sample
    fold can tell such a period from its neighbour."""
    k = rng.choice([7, 16, 50, 63, 100])
    return {"kind": "tim-long", "k": k, "ulps": rng.choice([1, -1, 1, -1, 2, -3, 0]), "n": rng.choice([(1 << 24), 12000017, (1 << 24) + 5]),
            "nbins": rng.choice([k, k, max(2, k // 2), min(64, k)]), "nints": rng.choice([1, 4, 16]), "vseed": rng.randrange(1 << 16),
            "ratio": float(k), "accel": 0.0, "faults": [], "ops": [{"gulp": 1}]}


def execute_long(sc, ctx) -> None:
    from sigpyproc.timeseries import TimeSeries

    from .c04 import base_header

    n, k, nbins, nints = int(sc["n"]), int(sc["k"]), int(sc["nbins"]), int(sc["nints"])
    ts32 = np.float32(TSAMP)
    p32 = np.float32(k) * ts32
    for _ in range(abs(int(sc["ulps"]))):
        p32 = np.nextafter(p32, np.float32(np.inf if sc["ulps"] > 0 else -np.inf), dtype=np.float32)
    period = float(p32)  # exactly representable in float32: what the caller asks for is what the kernel receives
    ctx.probe("long-fold(>=10^7-samples)")
    if sc["ulps"]:
        ctx.probe("period-a-few-float32-ulps-from-a-whole-number-of-samples")
    ctx.sig += ["tim-long", f"ulps{sc['ulps']}"]
    info = {"api": "TimeSeries.fold", "n": n, "period": period, "k": k, "ulps": sc["ulps"], "nbins": nbins, "nints": nints}

    def mk(clause, detail):
        return Violation(f"C11/TimeSeries.fold/{clause}/long", detail, info)

    hdr = base_header(ctx, 1).new_header({"nchans": 1, "nbits": 32, "tsamp": TSAMP, "nsamples": n, "data_type": "time series"})
    t = np.arange(n, dtype=np.float64)
    ts = float(np.float32(hdr.tsamp))
    phase = nbins * (t * ts) / period + 0.5  # the documented formula at accel = 0
    fl = np.floor(phase)
    frac = phase - fl
    amb = (frac < 1e-4) | (frac > 1 - 1e-4)  # the last bits of the evaluation would decide: judged with a tolerance below
    pbin = (fl.astype(np.int64)) % nbins
    other = np.where(frac < 0.5, pbin - 1, pbin + 1) % nbins  # the bin across the nearest edge
    sub = (np.arange(n, dtype=np.int64) * nints) // n
    # 0/1 data: every cell sum is an integer below 2^24, hence exact in the float32 accumulator whatever the order.
    # A pulse of one sample every k samples, plus random bits half a period later.
    ti = np.arange(n, dtype=np.int64)
    bits = (filgen._mix(int(sc["vseed"]), ti, np.zeros(n, dtype=np.int64)) & np.uint64(1)).astype(np.float32)
    data = np.where(ti % k == 0, np.float32(1), np.where(ti % k == k // 2, bits, np.float32(0))).astype(np.float32)
    del ti, bits
    data[amb] = 0.0  # ambiguous samples carry no power: only the hit count of two neighbouring cells is uncertain
    cell = sub * nbins + pbin
    ncell = nints * nbins
    sums = np.bincount(cell[~amb], weights=data[~amb].astype(np.float64), minlength=ncell)
    cdef = np.bincount(cell[~amb], minlength=ncell)
    camb = np.bincount(cell[amb], minlength=ncell) + np.bincount((sub * nbins + other)[amb], minlength=ncell)
    del phase, fl, frac, t
    try:
        cube = np.asarray(TimeSeries(data, hdr).fold(period, 0.0, nbins=nint(nbins), nints=nint(nints)).data, dtype=np.float64).reshape(ncell)
    except Exception as e:  # noqa: BLE001
        raise mk("raised", repr(e)[:300]) from None
    hi = sums / np.maximum(cdef, 1)
    lo = sums / np.maximum(cdef + camb, 1)
    tol = 1e-6 * np.maximum(1.0, hi)  # sums and counts are exact integers: only the final division rounds
    ok = (cube >= lo - tol) & (cube <= hi + tol)
    ok |= (cdef == 0)
    if not ok.all():
        j = int(np.argmax(~ok))
        raise mk("cell-not-mean-of-its-samples", f"{int((~ok).sum())} of {ncell} cells differ, first (subint, bin)=({j // nbins}, {j % nbins}): got {cube[j]!r}, "
                                                 f"the samples the phase formula assigns to it have mean in [{lo[j]:.6f}, {hi[j]:.6f}] ({int(cdef[j])} samples, {int(camb[j])} within 1e-4 bin of its edges)")
    ctx.probe("compared-cube")
    ctx.log("tim-long", n, k, sc["ulps"], int(amb.sum()), zlib.crc32(np.round(cube, 2).tobytes()))


def generate_long_fil(rng) -> dict:
    """A profile-style fold of a long multi-channel observation: more than 2^24 (sample, channel) values per cell - where a
    hit counter kept in float32, or in a 24-bit mantissa anywhere, stops counting.  The data are sparse 0/1 so that the cell
    SUMS stay below 2^24 (exact in the float32 accumulator) while the COUNTS do not."""
    nchans = rng.choice([32, 64])
    nbins = rng.choice([2, 2, 3])
    n = int((1 << 24) * nbins * rng.choice([1.15, 1.4]) / nchans) + rng.choice([1, 12345])
    return {"kind": "fil-long", "n": n, "nchans": nchans, "nbins": nbins, "nints": 1, "nbands": 1, "ratio": rng.choice([7.3, 12.7, 10.001, 33.3]),
            "density": rng.choice([4, 8]), "gulp": rng.choice([n // 7 + 1, 16384, n + 5]), "vseed": rng.randrange(1 << 16), "accel": 0.0, "faults": [], "ops": [{"gulp": 1}]}


def execute_long_fil(sc, ctx) -> None:
    from sim.core import open_reader
    from sim.disk import SimDisk

    n, nch, nbins = int(sc["n"]), int(sc["nchans"]), int(sc["nbins"])
    period = float(np.float32(sc["ratio"] * TSAMP))
    ctx.probe("long-fold(>2^24-values-per-cell)")
    ctx.sig += ["fil-long", f"nbins{nbins}"]
    info = {"api": "Filterbank.fold", "n": n, "nchans": nch, "period": period, "nbins": nbins, "gulp": sc["gulp"]}

    def mk(clause, detail):
        return Violation(f"C11/Filterbank.fold/{clause}/long", detail, info)

    ts = float(np.float32(TSAMP))
    phase = nbins * (np.arange(n, dtype=np.float64) * ts) / period + 0.5
    fl = np.floor(phase)
    frac = phase - fl
    amb = (frac < 1e-4) | (frac > 1 - 1e-4)
    pbin = fl.astype(np.int64) % nbins
    other = np.where(frac < 0.5, pbin - 1, pbin + 1) % nbins
    del phase, fl, frac
    tt = np.arange(n, dtype=np.int64)
    data = np.empty((n, nch), dtype=np.uint8)
    for c in range(nch):  # one column at a time: the whole (n, nchans) hash in 64-bit integers would be gigabytes
        data[:, c] = (filgen._mix(int(sc["vseed"]), tt, np.full(n, c, dtype=np.int64)) % np.uint64(int(sc["density"]))) == 0
    data[amb, :] = 0
    rows = data.sum(axis=1, dtype=np.int64)
    sums = np.bincount(pbin[~amb], weights=rows[~amb].astype(np.float64), minlength=nbins)
    cdef = np.bincount(pbin[~amb], minlength=nbins) * nch
    camb = (np.bincount(pbin[amb], minlength=nbins) + np.bincount(other[amb], minlength=nbins)) * nch
    if sums.max() >= (1 << 24):
        raise Rejected("cell sums would not be exact in float32")
    spec = {"nbits": 8, "nchans": nch, "nsamps": [n], "pad": [0], "vseed": 0, "mode": "small", "fch1": 1500.0, "foff": -1.0, "tsamp": TSAMP}
    path = os.path.join(ctx.root, "long_8.fil")
    with open(path, "wb") as fp:
        fp.write(filgen.encode_header(filgen.header_fields(spec, 0, 58000.0)))
        data.tofile(fp)
    del data, rows, tt
    with SimDisk(ctx, []) as sim:
        sim.begin_op(0, budget=1000000)
        reader = open_reader("C11", [path], allow_chdir=False)
        try:
            cube = np.asarray(reader.fold(period, 0.0, accel=0.0, nbins=nint(nbins), nints=1, nbands=1, gulp=nint(int(sc["gulp"])), quiet=True).data, dtype=np.float64).reshape(nbins)
        except Violation:
            raise
        except Exception as e:  # noqa: BLE001
            raise mk("raised", repr(e)[:300]) from None
        reader._file.close()
    hi = sums / np.maximum(cdef, 1)
    lo = sums / np.maximum(cdef + camb, 1)
    tol = 1e-6 * np.maximum(1.0, hi)
    ok = (cube >= lo - tol) & (cube <= hi + tol)
    if not ok.all():
        j = int(np.argmax(~ok))
        raise mk("cell-not-mean-of-its-samples", f"bin {j}: got {cube[j]!r}, the {int(cdef[j])} values the phase formula assigns to it have mean in [{lo[j]:.8f}, {hi[j]:.8f}]")
    ctx.probe("compared-cube")
    ctx.log("fil-long", n, nch, nbins, zlib.crc32(np.round(cube, 6).tobytes()))


def generate(rng, tier) -> dict:
    r = rng.random()
    if r < (0.002 if tier == "quick" else 0.01):
        return generate_long(rng)
    if r < (0.003 if tier == "quick" else 0.015):
        return generate_long_fil(rng)
    kind = rng.choice(["fil", "fil", "fil", "tim"])
    pulse = rng.random() < 0.12
    ratio = rng.choice([7.0, 10.0, 10.001, 3.3333, 12.5, 4.0, 8.0, 16.0, 32.0, round(rng.uniform(2.5, 40.0), 4), rng.randint(3, 20) + rng.choice([0.0, 1e-3, -1e-3])])
    accel = rng.choice([0.0, 0.0, 5.0, -250.0, "big", "big", "big"])
    sc = {"kind": kind, "ratio": ratio, "accel": accel, "faults": []}
    mx = 160 if tier == "quick" else 600
    if kind == "fil":
        nbits = rng.choice([8, 8, 32, 4, 2, 1])
        nchans = rng.choice([c for c in (2, 3, 4, 6, 8, 12) if (c * nbits) % 8 == 0])
        nfiles = rng.choice([1, 1, 2])
        counts = [rng.randint(20, mx // nfiles) for _ in range(nfiles)]
        N = sum(counts)
        spec = {"nbits": nbits, "nchans": nchans, "nsamps": counts, "pad": filgen.gen_pads(rng, nfiles, 0), "vseed": rng.randrange(1 << 16),
                "mode": "small", **T.DISP_BAND}
        dm = T.pick_dm(rng, nchans, max(2, N // 3))
        if pulse:
            k = rng.randint(3, 12)
            spec.update({"mode": "pulse", "vseed": k})
            sc["ratio"], dm, sc["accel"] = float(k), 0.0, 0.0
        budget = N * nchans // 10
        nbands = rng.choice([1, 2, nchans, rng.randint(1, nchans), rng.randint(1, nchans + 2)])
        nb_eff = max(nbands, 1)  # the library's size check uses nbands before capping it to nchans
        nints = rng.randint(1, max(1, min(4, budget // nb_eff)))
        nbins = rng.randint(1, max(1, min(16, budget // (nb_eff * nints))))
        sc["accel"] = _resolve_accel(rng, sc["accel"], N)
        sc.update({"files": spec, "dm": dm, "nbins": nbins, "nints": nints, "nbands": nbands})
        ops = []
        for _ in range(2):
            ops.append({"gulp": max(1, rng.choice([1, 2, 7, rng.randint(1, N), N, N + 3, max(1, N // 3), max(1, N // 4)]))})
        if rng.random() < 0.1:
            ops[rng.randrange(2)]["gulp"] = None  # gulp left at its default
        if rng.random() < 0.12:
            ops[0]["reentrant"] = True  # the allocator callback of this fold runs a complete fold on another reader
        sc["ops"] = ops
        from .c06 import gen_pre

        sc["pre"] = gen_pre(rng, N) if rng.random() < 0.25 else []
        if rng.random() < 0.2:
            sc["faults"].append({"kind": rng.choice(["R1", "R2"]), "op": rng.randrange(2), "call": rng.choice([0, 1, 2, 3]), "arg": rng.randint(1, 40)})
    else:
        n = rng.randint(20, mx * 3)
        nints = rng.randint(1, max(1, min(4, n // 10)))
        nbins = rng.randint(1, max(1, min(16, n // (10 * nints))))
        sc["accel"] = _resolve_accel(rng, sc["accel"], n)
        if rng.random() < 0.3:
            # the series' header records an acceleration of its own (as after resample()); fold() is given ITS argument
            sc["header_accel"] = _resolve_accel(rng, "big", n)
        sc.update({"n": n, "vseed": rng.randrange(1 << 16), "nbins": nbins, "nints": nints, "ops": [{"gulp": 1}]})
        if pulse:
            k = rng.randint(3, 12)
            sc.update({"pulse": k, "ratio": float(k), "accel": 0.0})
    return sc


def _resolve_accel(rng, accel, nsamp_total):
    """"big": an acceleration whose drift term a*tobs/(2c) is 0.3%..30%, i.e. large enough to move
    samples across phase bins within these short observations (the statement says *all*
    accelerations; physically plausible ones change nothing over a fraction of a second)."""
    if accel != "big":
        return accel
    frac = rng.choice([0.003, 0.02, 0.1, 0.3]) * rng.choice([1, -1])
    return float(np.float32(frac * 2 * C / (nsamp_total * TSAMP)))


def fixup(sc):
    for k in ("nbins", "nints"):
        sc[k] = max(1, sc[k])
    if sc["kind"] == "fil-long":
        sc["n"] = max(1000, int(sc["n"]))
        sc["nbins"] = max(2, min(int(sc["nbins"]), 8))
        sc["nchans"] = max(1, int(sc["nchans"]))
        sc["gulp"] = max(1024, int(sc["gulp"]))
        return sc
    if sc["kind"] == "tim-long":
        sc["n"] = max(1000, int(sc["n"]))
        sc["k"] = max(2, int(sc["k"]))
        sc["nbins"] = max(2, min(int(sc["nbins"]), 64))
        return sc if sc["n"] // (sc["nbins"] * sc["nints"]) >= 10 else None
    if sc["kind"] == "fil":
        f = sc["files"]
        if f["nbits"] not in (1, 2, 4, 8, 16, 32) or f["nchans"] < 2 or (f["nchans"] * f["nbits"]) % 8:
            return None
        f["nsamps"] = [n for n in f["nsamps"] if n >= 1][:2]
        if not f["nsamps"] or not sc["ops"]:
            return None
        f["pad"] = (list(f.get("pad") or []) + [0, 0, 0])[: len(f["nsamps"])]
        sc["nbands"] = max(1, sc["nbands"])
        N, nch = sum(f["nsamps"]), f["nchans"]
        if (N * nch) // (sc["nbands"] * sc["nints"] * sc["nbins"]) < 10:
            return None
        for o in sc["ops"]:
            if o["gulp"] is not None:
                o["gulp"] = max(1, o["gulp"])
        for o in sc.get("pre", []):
            o["start"] = max(0, min(o["start"], N - 1))
            o["nsamps"] = max(1, min(o["nsamps"], N - o["start"]))
            o["gulp"] = max(1, o["gulp"])
        sc["faults"] = [x for x in sc["faults"] if 0 <= x.get("op", -1) < len(sc["ops"])]
    else:
        sc["n"] = max(10, sc["n"])
        if sc["n"] // (sc["nbins"] * sc["nints"]) < 10:
            return None
    if sc["ratio"] <= 1.0:
        return None
    return sc


def nontrivial(sc, ctx) -> bool:
    return ctx.probes.get("compared-cube", 0) > 0


# ------------------------------------------------------------------ the cell model
def cell_model(Xd, N_total, nbins, nints, nbands, tsamp32, period32, accel32, ctx=None):
    """Xd: (nfold, nchans) DEDISPERSED samples (row t holds x[t+delay_c, c]).  Returns
    (sum cube, count cube) of shape (nints, nbands, nbins) in float64/int64; raises Rejected when
    a decisive quantity is within the margin of a boundary."""
    nfold, nch = Xd.shape
    t = np.arange(nfold, dtype=np.float64)
    ts, p, a = float(tsamp32), float(period32), float(accel32)
    tobs = N_total * ts
    tj = t * ts
    phase = nbins * tj * (1 + a * (tj - tobs) / (2 * C)) / p + 0.5
    if np.any(phase < 0):
        raise Rejected("negative phase")
    frac = phase - np.floor(phase)
    near = (frac < 1e-4) | (frac > 1 - 1e-4)
    pfloor = np.floor(phase).astype(np.int64)
    if near.any():
        # Margin rule - except where the documented formula is decided EXACTLY: with accel == 0 the
        # phase nbins*t*tsamp/period + 1/2 is a rational of the float32 inputs; if it is an integer
        # (a sample exactly half way between two bin centres, e.g. period = 2^m * tsamp) every IEEE
        # evaluation of the formula gives that integer and int() keeps it: the sample belongs to the
        # upper bin.  Anything else near an edge is rejected.
        if a != 0.0:
            raise Rejected("phase within 1e-4 bin of an edge")
        fts, fp = Fraction(ts), Fraction(p)
        for i in np.nonzero(near)[0]:
            exact = Fraction(nbins * int(i)) * fts / fp + Fraction(1, 2)
            if exact.denominator != 1:
                raise Rejected("phase within 1e-4 bin of an edge")
            pfloor[i] = int(exact)
        if ctx is not None:
            ctx.probe("exact-tie-samples")
    pbin = pfloor % nbins
    subint = np.array([int(Fraction(int(x) * nints, N_total)) for x in range(nfold)], dtype=np.int64)
    if not np.array_equal(subint, (t // (N_total / nints)).astype(np.int64)):
        raise Rejected("sub-integration index decided by float rounding")
    band = np.array([(c * nbands) // nch for c in range(nch)], dtype=np.int64)
    if not np.array_equal(band, (np.arange(nch) // (nch / nbands)).astype(np.int64)):
        raise Rejected("sub-band index decided by float rounding")
    sums = np.zeros((nints, nbands, nbins))
    cnts = np.zeros((nints, nbands, nbins), dtype=np.int64)
    for c in range(nch):
        np.add.at(sums, (subint, band[c], pbin), Xd[:, c].astype(np.float64))
        np.add.at(cnts, (subint, band[c], pbin), 1)
    return sums, cnts, pbin, subint


def compare_cube(cube, counts, sums, cnts, mk, ctx):
    """The cube decides: every non-empty cell must be the mean of the samples the model assigns to it.
    The kernel's hit-count array is observed through the spy and used for diagnosis (a mismatch there
    with a correct cube is another internal representation, not a violation)."""
    cube = np.asarray(cube)
    if cube.shape != sums.shape:
        raise mk("cube-shape", f"{cube.shape} != {sums.shape}")
    counts_note = ""
    if counts is not None and np.asarray(counts).size == cnts.size:
        ctx.probe("counts-observed")
        got_c = np.asarray(counts).reshape(cnts.shape)
        if not np.array_equal(got_c, cnts):
            idx = tuple(int(x) for x in np.argwhere(got_c != cnts)[0])
            counts_note = (f"; kernel hit counts also differ from the model (sum {int(got_c.sum())} vs {int(cnts.sum())}, "
                           f"cell {idx}: {int(got_c[idx])} vs {int(cnts[idx])})")
            ctx.observations["kernel-hit-counts-differ-from-model"] += 1
    elif counts is not None:
        ctx.observations["kernel-count-array-has-another-shape"] += 1
    nz = cnts > 0
    want = np.zeros_like(sums)
    want[nz] = sums[nz] / cnts[nz]
    got = cube.astype(np.float64)
    bad = nz & ~(np.abs(got - want) <= 1e-6 * np.maximum(1.0, np.abs(want)))
    if bad.any():
        idx = tuple(int(x) for x in np.argwhere(bad)[0])
        raise mk("cell-not-mean-of-its-samples", f"{int(bad.sum())} of {int(nz.sum())} cells differ, first (subint, band, bin)={idx}: got {got[idx]!r} want {want[idx]!r}{counts_note}")
    ctx.probe("compared-cube")


def execute(sc, ctx) -> None:
    import sigpyproc.core.kernels as K

    kind = sc["kind"]
    ctx.probe(f"kind:{kind}")
    if kind == "tim-long":
        return execute_long(sc, ctx)
    if kind == "fil-long":
        return execute_long_fil(sc, ctx)
    ts32 = np.float32(TSAMP)
    period = sc["ratio"] * TSAMP
    p32, a32 = np.float32(period), np.float32(sc["accel"])
    nbins, nints = sc["nbins"], sc["nints"]
    if sc["accel"] != 0:
        ctx.probe("accel!=0")
    if abs(sc["accel"]) > 1e4:
        ctx.probe("accel-moves-bins")
    if abs(sc["ratio"] - round(sc["ratio"])) < 5e-3:
        ctx.probe("near-integer-period-ratio")
    ctx.sig += [kind, f"accel{sc['accel'] != 0}"]
    seen = {}
    real_fold = getattr(K, "fold", None)  # the spy is optional: without it the cube alone decides

    def spy(*args):
        seen["count_ar"] = args[2]
        seen["calls"] = seen.get("calls", 0) + 1
        return real_fold(*args)

    if kind == "tim":
        from sigpyproc.timeseries import TimeSeries

        from .c04 import base_header

        n = sc["n"]
        if sc.get("pulse"):
            data = np.where(np.arange(n) % sc["pulse"] == 0, 1, 0).astype(np.float32)
            ctx.probe("pulse-train")
        else:
            data = filgen.make_samples(sc["vseed"], n, 1, 8, "small")[:, 0].astype(np.float32)
        hdr = base_header(ctx, 1).new_header({"nchans": 1, "nbits": 32, "tsamp": TSAMP, "nsamples": n, "data_type": "time series",
                                              "accel": float(sc.get("header_accel", 0.0)), "dm": 12.5 if sc.get("header_accel") else 0.0})
        if sc.get("header_accel"):
            ctx.probe("header-carries-its-own-accel")
        sums, cnts, pbin, _ = cell_model(data[:, None], n, nbins, nints, 1, np.float32(hdr.tsamp), p32, a32, ctx)
        info = {"api": "TimeSeries.fold", "n": n, "ratio": sc["ratio"], "accel": sc["accel"], "nbins": nbins, "nints": nints}

        def mk(clause, detail):
            return Violation(f"C11/TimeSeries.fold/{clause}", detail, info)

        if sc.get("vseed", 0) % 3 == 0:  # the same series handed over as a non-contiguous view
            wide = np.zeros(data.size * 2, dtype=data.dtype)
            wide[::2] = data
            data = wide[::2]
            ctx.probe("tim-strided-input")
        if real_fold is not None:
            K.fold = spy
        try:
            cube = TimeSeries(data, hdr).fold(period, sc["accel"], nbins=nint(nbins), nints=nint(nints))
        except Violation:
            raise
        except Exception as e:  # noqa: BLE001
            raise mk("raised", repr(e)[:300]) from None
        finally:
            if real_fold is not None:
                K.fold = real_fold
        compare_cube(cube.data, seen.get("count_ar"), sums, cnts, mk, ctx)
        if sc.get("pulse"):
            check_pulse(np.asarray(cube.data), cnts, mk)
        ctx.log("tim", n, zlib.crc32(np.nan_to_num(np.asarray(cube.data)).tobytes()))
        return

    from sigpyproc.readers import FilReader

    spec = sc["files"]
    fs = filgen.write_fileset(ctx.root, spec)
    N, nchans = fs.nsamples, spec["nchans"]
    nbands = min(sc["nbands"], nchans)
    if nchans % nbands:
        ctx.probe("nbands-not-dividing-nchans")
    if spec["mode"] == "pulse":
        ctx.probe("pulse-train")
    with SimDisk(ctx, sc["faults"]) as sim:
        reader = open_reader("C11", fs.paths)
        delays = np.atleast_1d(np.asarray(reader.header.get_dmdelays(sc["dm"])))
        md = T.dedisp_domain(delays, N)
        nfold = N - md
        Xd = np.stack([fs.samples[delays[c] : delays[c] + nfold, c] for c in range(nchans)], axis=1)
        sums, cnts, pbin, _ = cell_model(Xd, N, nbins, nints, nbands, np.float32(reader.header.tsamp), p32, a32, ctx)
        cubes = []
        held = None
        if sc.get("pre"):
            from .c06 import run_pre

            sim.begin_op(-1, budget=1000000)
            run_pre(reader, sc["pre"], ctx)
        for i, op in enumerate(sc["ops"]):
            gulp = op["gulp"]
            if gulp is None:
                ctx.probe("default-gulp")
            gnum = 16384 if gulp is None else gulp
            g_eff = max(2 * md, gnum)
            if g_eff != gnum:
                ctx.probe("gulp-raised-to-2maxdelay")
            nblk = blocks_of(N, min(g_eff, N), md)
            if nblk >= 3:
                ctx.probe(">=3-blocks")
                if md > 0:
                    ctx.probe("index-with-maxdelay>0")
            sim.begin_op(i, budget=16 * (nblk + 2) * (len(spec["nsamps"]) + 2) + 64)
            fired0 = sum(ctx.faults.values())
            info = {"api": "Filterbank.fold", "gulp": gulp, "N": N, "nchans": nchans, "nbits": spec["nbits"], "dm": sc["dm"], "maxdelay": md,
                    "ratio": sc["ratio"], "accel": sc["accel"], "nbins": nbins, "nints": nints, "nbands": sc["nbands"], "nblocks": nblk, "op_index": i}
            seen.clear()
            raised = None
            if real_fold is not None:
                K.fold = spy
            try:
                gkw = {} if gulp is None else {"gulp": nint(gulp)}
                if op.get("reentrant") and not sc["faults"]:
                    state = {"done": False}

                    def alloc(n, _state=state):
                        # a callback the caller owns runs in the middle of fold A: it folds the same file set
                        # through a second reader (same cube geometry) to completion, then hands out the buffer
                        if not _state["done"]:
                            _state["done"] = True
                            rb = open_reader("C11", fs.paths)
                            cb = rb.fold(period, sc["dm"], accel=sc["accel"], nbins=nbins, nints=nints, nbands=sc["nbands"], gulp=max(1, N // 2), quiet=True)
                            _state["inner"] = np.asarray(cb.data).copy()
                            rb._file.close()
                        return bytearray(n)

                    gkw["allocator"] = alloc
                    ctx.probe("reentrant-fold-inside-allocator")
                cube = reader.fold(period, sc["dm"], accel=sc["accel"], nbins=nint(nbins), nints=nint(nints), nbands=nint(sc["nbands"]), quiet=True, **gkw)
            except SimLivelock as e:
                raise Violation("C11/Filterbank.fold/livelock", str(e), info) from None
            except Violation:
                raise
            except Exception as e:  # noqa: BLE001
                raised = e
            finally:
                if real_fold is not None:
                    K.fold = real_fold
            fault = sum(ctx.faults.values()) > fired0
            tag = "fault" if fault else "nofault"

            def mk(clause, detail, _tag=tag, _info=info):
                return Violation(f"C11/Filterbank.fold/{clause}/{_tag}", detail, _info)

            ctx.sig.append(f"blk{min(nblk, 3)}:md{md > 0}:{tag}")
            if raised is not None:
                ctx.log("fold", i, gulp, type(raised).__name__)
                if not fault:
                    raise mk("raised", repr(raised)[:300])
                ctx.probe("fault-raised")
                continue
            compare_cube(cube.data, None if op.get("reentrant") else seen.get("count_ar"), sums, cnts, mk, ctx)
            if op.get("reentrant") and not sc["faults"] and "inner" in state:
                compare_cube(state["inner"], None, sums, cnts, lambda c, d: mk("inner-fold-" + c, d), ctx)
            if spec["mode"] == "pulse":
                check_pulse(np.asarray(cube.data), cnts, mk)
            if held is not None and np.nan_to_num(np.asarray(held[0])).tobytes() != held[1]:
                raise mk("held-cube-changed-by-a-later-fold", "the cube returned by the first fold changed during the second")
            if held is None:
                held = (cube.data, np.nan_to_num(np.asarray(cube.data)).tobytes())
            else:
                ctx.probe("held-cube-rechecked")
            cubes.append(np.asarray(cube.data).copy())
            ctx.log("fold", i, gulp, nblk, zlib.crc32(np.nan_to_num(cubes[-1]).tobytes()))
        if len(cubes) == 2:
            ctx.probe("two-gulps-compared")
            if cubes[0].tobytes() != cubes[1].tobytes():
                raise Violation("C11/Filterbank.fold/gulp-dependence", "cubes differ bitwise between two gulps", {"api": "Filterbank.fold"})
        reader._file.close()


def check_pulse(cube, cnts, mk) -> None:
    """A strictly periodic train folded at its period occupies a single phase bin per sub-integration."""
    prof = np.nan_to_num(cube).sum(axis=1)  # (nints, nbins)
    for i in range(prof.shape[0]):
        if cnts[i].sum() == 0:
            continue
        occupied = np.nonzero(prof[i] > 0)[0]
        if len(occupied) > 1:
            raise mk("pulse-train-smeared", f"sub-integration {i}: pulse power in bins {occupied.tolist()}")
