"""C04 static metadata."""
LEVEL = "exploration"
QUICK_RUNS = 8000
THOROUGH_BUDGET_S = 600
RULE = (
    "seeded put/get histories: (fil) prep_outfile at depth d in {1,2,4,8,16,32}, 1-6 cwrite chunks of whole samples whose "
    "in-memory dtype is drawn from {uint8,uint16,int64,float32,float64} independently of d, values from the representable "
    "set of d, handed over as a flat array, a strided 1-D view, or the logical (nsamps, nchans) array in C or Fortran memory order (written in logical order or refused - never scrambled) (or deliberately not representable: only converted-or-refused is asserted), close or drop, reopen by path, "
    "read back whole / in sub-ranges / with read_plan; (block) FilterbankBlock.to_file; (tim/dat) TimeSeries.to_tim/to_dat -> "
    "from_tim/from_dat; (spec/fft) FourierSeries.to_spec/to_fft -> from_spec/from_fft, with generated tsamp/tstart/dm; fault "
    "runs add W3 (ENOSPC at byte j of write k). Non-trivial = a product was re-opened and compared; distinct = distinct "
    "event-log digests among those."
)
PROBES = ["dtype!=file-dtype", "chunks>1", "reopen-without-close", "unrepresentable-values", "refused", "converted",
          "W3-raised", "sub-range-read-back", "read_plan-read-back", "earlier-product-at-other-depth", "big-chunks", "layout:1d-strided", "layout:2d-C", "layout:2d-F", "dotted-basename-with-sibling"] + [f"depth:{d}" for d in (1, 2, 4, 8, 16, 32)] + [
    f"format:{k}" for k in ("fil", "block", "tim", "dat", "spec", "fft")]
COMPONENTS = {
    "real": ["Header.prep_outfile / FileWriter.cwrite / bits.pack", "FilterbankBlock.to_file", "TimeSeries.to_tim/to_dat/from_tim/from_dat",
             "FourierSeries.to_spec/to_fft/from_spec/from_fft", "Header.make_inf/from_inffile (Path.open: real, fault-free)",
             "FilReader.read_block/read_plan", "ndarray.tofile(path) in to_fft (real, fault-free, outside the seam)"],
    "simulated": ["FileWriter.write/cwrite wrapped: every write is an event with before/after sizes; ENOSPC at (k, j)",
                  "restart: every object dropped, products re-opened by path"],
    "stubbed": [],
}
ASSUMPTIONS = [
    "after an injected ENOSPC the history stops (a writer that keeps appending after a failed write is the caller's error)",
    "tsamp compared to 1e-12 relative, tstart to 5e-6 s, dm to 1e-9 relative (.inf is a text format)",
    "NaN payloads are only round-tripped when the in-memory dtype is float32",
]

# dimensions added in seeded rounds 6 and 7
PROBES = list(PROBES) + ["output-path-held-a-longer-file"]

# dimensions added in seeded round 9
PROBES = list(PROBES) + ["tuning-constant-lowered"]
ASSUMPTIONS = list(ASSUMPTIONS) + ["module-level ALL-CAPS int constants >= 4096 of pure-Python sigpyproc modules are tuning thresholds: lowered to 257/1000/4099 in a quarter of the runs (also where bound as default arguments); the pinned tree has none"]

# dimensions added in seeded round 10
PROBES = [p for p in PROBES if p != "tuning-constant-lowered"] + ["one-write-of-more-than-2^24-samples"]
RULE = RULE + (" Round 9/10: 0.2% of fil histories (1% thorough) are ONE cwrite of more than 2^24 samples; the product's free-text header strings are 0-700 characters long in 40% of the "
               "scenarios (every header length up to ~1050 bytes); W4: in 5/8 of the runs one raw data write transfers at most 1-1000 bytes (never fires on the pinned tree: data go through tofile).")

# dimensions added in seeded round 11
PROBES = list(PROBES) + ["dat-and-fft-share-one-inf"]
RULE = RULE + " Round 11: for .fft products a .dat companion may be written afterwards under the same basename (PRESTO layout: one .inf for both)."
