"""C18 static metadata."""
LEVEL = "exploration"
QUICK_RUNS = 1600
THOROUGH_BUDGET_S = 600
RULE = (
    "seeded scenarios: a search-mode PSRFITS file written by the harness with astropy.io.fits (NSBLK 4..32, 2-5 "
    "sub-integrations, 4/8 bit, polarisation layouts AABBCRCI / STOKE / AABB / INTEN, ascending or descending channel "
    "order, per-channel scales/offsets/weights, ZERO_OFF); a layout the reader cannot read in full is excluded (counted) as "
    "the statement says. History: whole-file read, then <=10 read_block(start,nsamps) in arbitrary order (aligned, "
    "unaligned, crossing one or two sub-integration boundaries, out of range), read_plan(gulp,start,nsamps,skipback), "
    "and collapse/bandpass on the PSRFITS reader vs a twin SIGPROC file holding the same samples. Oracle: each read_block "
    "== the same columns of the whole-file read (bitwise); whole-file read == scale/offset/weight/polarisation model "
    "(1e-5) with channels in descending frequency; read_plan exactly-once (C01's block oracle); reductions equal the "
    "twin's; header fch1/foff/tsamp/nsamples/nchans/nbits are plain numbers consistent with the data. Fault-free only: "
    "astropy reads through mmap, outside the fault seam. Non-trivial = at least one unaligned read compared; distinct = "
    "distinct event digests among those."
)
PROBES = ["unaligned-read", "crosses-one-boundary", "crosses-two-boundaries", "read_plan-compared", "twin-compared",
          "ascending-band", "4-bit", "out-of-range-raises", "plan-gulp-not-dividing-NSBLK", "scales-offsets-weights", "held-blocks-rechecked", "earlier-file-at-the-same-path", "gzip-compressed-file"]
COMPONENTS = {
    "real": ["sigpyproc.readers.PFITSReader.read_block/read_plan", "sigpyproc.io.pfits.PFITSFile (read_subints/read_subint_pol/read_subint)",
             "Header.from_pfits", "Filterbank.collapse/bandpass on the PSRFITS reader", "astropy.io.fits (mmap; outside the fault seam)"],
    "simulated": ["the PSRFITS input (written by the harness with astropy)", "the read history", "twin SIGPROC file (harness encoder)"],
    "stubbed": [],
}
ASSUMPTIONS = [
    "no fault is injected (a truncated mmap would SIGBUS): the claim is fault-free only",
    "layouts with 1 or 2 polarisations, which this reader cannot read in full on the pinned tree, are excluded as the statement says ('that the reader opens and can read in full'); a four-polarisation file that fails to open or read is a violation, not an exclusion",
    "whole-file read vs model with 1e-5 relative tolerance; position independence asserted bitwise",
]

# dimensions added in seeded rounds 6 and 7
PROBES = list(PROBES) + ["twin-compared:fold", "twin-compared:dedisperse", "twin-compared:compute_stats", "twin-compared:read_chan", "bandwidth-card-sign-differs-from-the-frequency-table", "single-row-file", "scales-offsets-weights-differ-from-row-to-row"]

# dimensions added in seeded round 10
PROBES = list(PROBES) + ["all-numeric-header-fields-checked", "primary-cards-with-placeholder-values"]
RULE = RULE + " Round 10: optional primary cards (IBEAM, CHAN_DM, NBEAM, SCANLEN, BMAJ, BMIN, BPA, PNT_ID) are absent, numeric, '*', a quoted number or empty in 3/4 of the files; EVERY Header field annotated int/float must be a plain number."
