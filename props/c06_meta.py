"""C06 static metadata."""
LEVEL = "exploration"
QUICK_RUNS = 9600
THOROUGH_BUDGET_S = 600
RULE = (
    "seeded scenarios: one streaming reduction (collapse, bandpass, read_chan, dedisperse, compute_stats, "
    "compute_stats_basic) evaluated twice on ONE FilReader object (two different gulps on the same window, or - 35% - a second, shifted or different window; 30% of runs first make 1-2 unrelated calls - compute_stats, collapse, bandpass, read_block on other ranges - on that reader) over 1-2 harness-written files (depth "
    "1,2,4,8,32; small integer samples so float32 sums are exact), for generated (start,nsamps) and DMs with "
    "0<=maxdelay<nsamps; each result is compared with the in-memory definition on samples [start,start+nsamps) and the "
    "two gulps with each other; fault runs add R1/R2 on input reads. Non-trivial = a reduction returned and was "
    "compared; distinct = distinct event-log digests among those."
)
PROBES = [">=3-blocks", "partial-last-block", "sub-range-before-EOF", "dedisperse:gulp-raised-to-2maxdelay", "dedisperse:maxdelay>0",
          "block-across-file-boundary", "fault-in-block>=1", "gulp>range", "two-gulps-compared", "sub-byte", "start>0", "second-window-on-same-reader", "pre-history-call", "big-blocks", "start>0-with-default-nsamps", "default-gulp", "held-result-rechecked", "data-with-blank-stretches", "reentrant-call-inside-allocator", "earlier-session"] + [
    f"ok:{n}" for n in ["collapse", "bandpass", "read_chan", "dedisperse", "compute_stats", "compute_stats_basic"]]
COMPONENTS = {
    "real": ["sigpyproc.base.Filterbank.{collapse,bandpass,read_chan,dedisperse,compute_stats,compute_stats_basic}",
             "FilReader.read_plan", "numba kernels extract_tim/extract_bpass/dedisperse/compute_online_moments (compiled, 1 thread)",
             "sigpyproc.core.stats.ChannelStats"],
    "simulated": ["io.FileIO -> SimFileIO (input read events/faults)", "input files (harness encoder)"],
    "stubbed": [],
}
ASSUMPTIONS = [
    "per-channel delays are those the library reports for the DM (C09 owns the dispersion law)",
    "collapse/read_chan/dedisperse compared bit-exactly (integer-valued data); bandpass to 1e-6 relative; statistics with C10's tolerances",
    "kurtosis is not compared on constant channels (undefined in the two-pass definition)",
    "fault configuration: the call raises or returns the exact result",
]

# dimensions added in seeded rounds 6 and 7
PROBES = list(PROBES) + ["integer-arguments-as-numpy-scalars"]

# dimensions added in seeded round 9
PROBES = list(PROBES) + ["full-range-data"]
RULE = RULE + " Round 9: 30% of 8-bit scenarios use the whole range of the sample type (sums stay below 2^24: exact in float32); header key order / optional keys varied."

# dimensions added in seeded round 10
PROBES = list(PROBES) + ["task-switch-after-a-read"]
RULE = RULE + (" Round 10: in 12% of the scenarios a scheduling point follows read k (k in 0..3) of one of the two calls: another task of the process - another beam of the same shape, "
               "its own reader - runs the same reduction to completion before the interrupted call sees its data (the thread switch that the GIL release in readinto allows, made deterministic).")
COMPONENTS = {**COMPONENTS, "simulated": list(COMPONENTS["simulated"]) + ["task scheduling between two reductions: a hand-over at the read seam (one switch per call, chosen by the scenario)"]}

# dimensions added in seeded round 11
RULE = RULE + " Round 11: 0.2% of runs (0.6% thorough) reduce ONE block of ten million samples x channels (1024-3072 channels) with gulps 10000 / 9999 / N-7 and again at gulp 512."
