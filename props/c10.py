"""C10 - online channel statistics do not depend on how the stream is chunked or merged."""
from __future__ import annotations

import os

import numpy as np

from sim.core import Violation

from .c10_meta import TOL

ID = "C10"
SHRINK_LISTS = ("chunks", "chunks_a", "chunks_b", "chunks_c", "cuts")
SHRINK_MIN = {"n": 1, "nchans": 1, "k": 1}
FAMILIES = ["constant", "onebit", "smallint", "gauss", "gauss-bigmean", "heavy", "one-constant", "step", "step", "tiny", "huge"]
CAL = bool(os.environ.get("VERIF_C10_CALIBRATE"))


def warm() -> None:
    from sigpyproc.core.stats import ChannelStats

    for mode in ("basic", "full"):
        a = ChannelStats(2, 4)
        a.push_data(np.arange(8, dtype=np.float32), 0, mode=mode)
        b = ChannelStats(2, 4)
        b.push_data(np.arange(8, dtype=np.float32), 0, mode=mode)
        _ = a + b


def composition(rng, n, style=None):
    style = style or rng.choice(["ones", "huge+ones", "geometric", "random", "random", "whole", "two"])
    if n <= 0:
        return []
    if style == "ones":
        return [1] * n
    if style == "whole":
        return [n]
    if style == "huge+ones":
        h = max(1, n - rng.randint(1, min(n, 5)))
        parts = [h] + [1] * (n - h)
        rng.shuffle(parts)
        return parts
    if style == "two":
        k = rng.randint(1, max(1, n - 1)) if n > 1 else 1
        return [k, n - k] if n - k > 0 else [k]
    out, left = [], n
    size = 1
    while left > 0:
        c = min(left, size if style == "geometric" else rng.randint(1, max(1, min(left, 40))))
        out.append(c)
        left -= c
        size *= 2
    return out


def blocks(n, size):
    return [size] * (n // size) + ([n % size] if n % size else [])


def generate(rng, tier) -> dict:
    if rng.random() < (0.004 if tier == "quick" else 0.008):
        # a LONG stream (counts beyond 2^16 / 2^24, products of counts beyond 2^31: where a narrow counter, an integer
        # product or a float32 running sum gives out); non-stationary levels make the cross terms of a merge matter
        n = rng.choice([(1 << 16) + 3, 200003, 200003, 200003, 400009, 400009, (1 << 24) + 7])
        k = rng.choice([1, n // 3, n // 2, n - 1])
        size = rng.choice([1 << 12, 1 << 14, 1 << 16, 100000, 1000003])
        return {"n": n, "nchans": 1, "mode": rng.choice(["basic", "full"]), "family": rng.choice(["onebit", "smallint", "gauss", "gauss-bigmean", "step", "step", "step"]),
                "dseed": rng.randrange(1 << 30), "chunks": blocks(n, size), "k": k, "chunks_a": blocks(k, size), "chunks_b": blocks(n - k, size),
                "order": rng.choice(["ab", "ba", "a+=b"]), "tail": 0, "chunks_c": [1], "reuse": rng.random() < 0.4, "long": True}
    n = rng.choice([1, 2, 3, rng.randint(1, 30), rng.randint(1, 400 if tier == "quick" else 2000)])
    nch = rng.randint(1, 6)
    k = rng.choice([1, n - 1, rng.randint(1, max(1, n - 1))]) if n >= 2 else 0
    return {"n": n, "nchans": nch, "mode": rng.choice(["basic", "full"]), "family": rng.choice(FAMILIES),
            "dseed": rng.randrange(1 << 30), "chunks": composition(rng, n), "k": k,
            "chunks_a": composition(rng, k), "chunks_b": composition(rng, n - k), "order": rng.choice(["ab", "ba", "a+=b", "b+=a"]),
            # the merged accumulator is then fed the REST of the stream (the second accumulator was declared for
            # all of x[k:] but had only received x[k:n-tail] when the two were added)
            "tail": rng.choice([0, 0, 1, rng.randint(1, max(1, n - k - 1))]) if n - k >= 2 else 0,
            "chunks_c": composition(rng, rng.randint(1, 30)), "reuse": rng.random() < 0.4,
            **gen_tree(rng, n)}


def gen_tree(rng, n) -> dict:
    """More than two accumulators (one per node / beam / file) combined pairwise in some bracketing: a left fold, a
    right fold, a balanced tree, anything.  `cuts` are the part boundaries, `merges` the positions (in the shrinking list
    of partial sums) of the adjacent pair combined next, `flips` whether that pair is added as right + left."""
    if n < 3 or rng.random() < 0.5:
        return {}
    m = rng.randint(3, min(n, 8))
    cuts = sorted(rng.sample(range(1, n), m - 1))
    style = rng.choice(["left", "right", "balanced", "random", "random"])
    merges, size = [], m
    while size > 1:
        if style == "left":
            j = 0
        elif style == "right":
            j = size - 2
        elif style == "balanced":
            j = None
        else:
            j = rng.randrange(size - 1)
        if j is None:  # one balanced level: pairs (0,1), (2,3), ... -> positions 0, 1, 2, ... of the shrinking list
            for q in range(size // 2):
                merges.append(q)
            size -= size // 2
        else:
            merges.append(j)
            size -= 1
    return {"cuts": cuts, "merges": merges, "flips": [rng.random() < 0.3 for _ in merges], "tree_empty": rng.random() < 0.15}


def _fix(parts, total):
    parts = [p for p in parts if p >= 1]
    out, s = [], 0
    for p in parts:
        if s + p > total:
            p = total - s
        if p > 0:
            out.append(p)
            s += p
    if s < total:
        out.append(total - s)
    return out


def fixup(sc):
    sc["n"] = max(1, sc["n"])
    sc["nchans"] = max(1, sc["nchans"])
    sc["k"] = max(1, min(sc["k"], sc["n"] - 1)) if sc["n"] >= 2 else 0
    sc["chunks"] = _fix(sc["chunks"], sc["n"])
    sc["chunks_a"] = _fix(sc["chunks_a"], sc["k"])
    sc["chunks_b"] = _fix(sc["chunks_b"], sc["n"] - sc["k"])
    sc["tail"] = max(0, min(int(sc.get("tail") or 0), sc["n"] - sc["k"] - 1)) if sc["k"] >= 1 else 0
    if sc.get("cuts") is not None:
        sc["cuts"] = sorted({c for c in sc["cuts"] if 1 <= c < sc["n"]})
        if not sc["cuts"]:
            for kk in ("cuts", "merges", "flips", "tree_empty"):
                sc.pop(kk, None)
    return sc


def nontrivial(sc, ctx) -> bool:
    return sc["n"] >= 2 and (len(sc["chunks"]) >= 2 or sc["k"] >= 1)


def make_data(sc) -> np.ndarray:
    r = np.random.default_rng(int(sc["dseed"]))
    n, nch, fam = sc["n"], sc["nchans"], sc["family"]
    if fam == "constant":
        x = np.ones((n, nch)) * r.integers(0, 200, size=nch)[None, :]
    elif fam == "onebit":
        x = r.integers(0, 2, size=(n, nch)).astype(np.float64)
    elif fam == "smallint":
        x = r.integers(0, 16, size=(n, nch)).astype(np.float64)
    elif fam == "gauss":
        x = r.normal(r.uniform(-5, 5, size=nch)[None, :], r.uniform(0.5, 3, size=nch)[None, :], size=(n, nch))
    elif fam == "gauss-bigmean":
        sig = r.uniform(0.5, 3, size=nch)
        x = r.normal((sig * r.choice([10, 100, 1000], size=nch))[None, :], sig[None, :], size=(n, nch))
    elif fam == "heavy":
        x = r.standard_t(3, size=(n, nch)) * 4
    elif fam in ("tiny", "huge"):
        # the same statistics at very small / very large amplitude (float32 files hold arbitrary units)
        scale = r.choice([1e-3, 1e-5, 3e-6]) if fam == "tiny" else r.choice([1e3, 1e5])
        x = r.gamma(2.0, 1.0, size=(n, nch)) * scale
    elif fam == "step":
        # non-stationary: the level jumps by several sigma at a random sample (two parts of a merge
        # then have very different means, which is where the pairwise-merge cross terms matter)
        x = r.normal(5, 2, size=(n, nch))
        at = int(r.integers(0, n + 1))
        x[at:] += r.choice([6.0, 12.0, -9.0], size=nch)[None, :]
    else:  # one-constant
        x = r.normal(10, 2, size=(n, nch))
        x[:, int(r.integers(0, nch))] = 7.0
    return np.ascontiguousarray(x.astype(np.float32))


def truth(x32):
    x = x32.astype(np.float64)
    n = x.shape[0]
    mean = x.mean(0)
    d = x - mean
    m2 = (d ** 2).sum(0)
    var = m2 / n
    const = (x == x[0]).all(0)
    with np.errstate(divide="ignore", invalid="ignore"):
        skew = np.where(const, 0.0, (d ** 3).sum(0) / n / np.power(var, 1.5))
        kurt = np.where(const, np.nan, (d ** 4).sum(0) / n / var ** 2 - 3)
    return {"n": n, "mean": mean, "var": var, "skew": skew, "kurt": kurt, "min": x.min(0), "max": x.max(0), "const": const}


REUSE = [False]  # set per scenario: chunks are handed over in ONE scratch buffer that the caller refills


def push(x32, parts, mode, nsamps, strided=False):
    from sigpyproc.core.stats import ChannelStats

    st = ChannelStats(x32.shape[1], nsamps)
    t = 0
    scratch = np.empty(max(parts, default=1) * x32.shape[1], dtype=x32.dtype) if REUSE[0] else None
    for j, p in enumerate(parts):
        flat = np.ascontiguousarray(x32[t : t + p]).ravel()
        if strided and j % 2 == 1:  # the same values handed over as a non-contiguous 1-D view
            wide = np.zeros(flat.size * 2, dtype=flat.dtype)
            wide[::2] = flat
            flat = wide[::2]
        if scratch is not None:
            # a streaming caller: one buffer, refilled for every chunk (what read_plan's blocks are); what the
            # accumulator was given is overwritten as soon as the call returns
            view = scratch[: flat.size]
            view[:] = flat
            st.push_data(view, t, mode=mode)
            view[:] = np.float32(-7.7e7)
        else:
            st.push_data(flat, t, mode=mode)
        t += p
    return st


def readout(st, mode):
    out = {"count": np.array(st.moments["count"]), "min": np.array(st.minima), "max": np.array(st.maxima),
           "mean": np.array(st.mean, dtype=np.float64), "var": np.array(st.var, dtype=np.float64)}
    if mode == "full":
        out["skew"] = np.array(st.skew, dtype=np.float64)
        out["kurt"] = np.array(st.kurtosis, dtype=np.float64)
    return out


def errors(got, tr, mode):
    """Normalised errors (dimensionless) per statistic, max over channels."""
    sig = np.sqrt(tr["var"])
    # float32 accumulation error of a running mean: ~ ulp(|mean| + sigma) * sqrt(n)
    rt = np.sqrt(tr["n"])
    e = {"mean": float(np.max(np.abs(got["mean"] - tr["mean"]) / (2.0 ** -23 * rt * (np.abs(tr["mean"]) + sig) + 1e-30))),
         "var": float(np.max(np.abs(got["var"] - tr["var"]) / (tr["var"] + (np.abs(tr["mean"]) * 2.0 ** -12) ** 2 + 1e-30)))}
    nz = ~tr["const"]
    if mode == "full" and tr["n"] >= 8 and nz.any():
        e["skew"] = float(np.max(np.abs(got["skew"][nz] - tr["skew"][nz]) / (1 + np.abs(tr["skew"][nz]))))
        e["kurt"] = float(np.max(np.abs(got["kurt"][nz] - tr["kurt"][nz]) / (1 + np.abs(tr["kurt"][nz]))))
    return e


def check(label, got, tr, mode, sc, ctx):
    info = {"api": label, "mode": mode, "family": sc["family"], "n": sc["n"], "k": sc["k"], "order": sc["order"]}

    def mk(clause, detail):
        return Violation(f"C10/{label}/{clause}/{mode}", detail, info)

    # compared in float64 / exact integers: a count held in a narrower float would otherwise pull n down to its own precision
    if not np.all(np.asarray(got["count"]).astype(np.float64) == float(tr["n"])) or np.asarray(got["count"]).dtype.kind not in "iuf":
        raise mk("count", f"{got['count'].tolist()} != {tr['n']}")
    if not np.array_equal(got["min"].astype(np.float64), tr["min"]):
        raise mk("min", f"{got['min'].tolist()} != {tr['min'].tolist()}")
    if not np.array_equal(got["max"].astype(np.float64), tr["max"]):
        raise mk("max", f"{got['max'].tolist()} != {tr['max'].tolist()}")
    for k, v in got.items():
        if not np.all(np.isfinite(v)):
            raise mk("non-finite", f"{k}: {v.tolist()}")
    c = tr["const"]
    if c.any():
        if np.any(got["var"][c] != 0):
            raise mk("constant-channel-variance", f"{got['var'].tolist()}")
        if mode == "full" and np.any(got["skew"][c] != 0):
            raise mk("constant-channel-skew", f"{got['skew'].tolist()}")
    e = errors(got, tr, mode)
    for k, v in e.items():
        if CAL:
            ctx.artifacts[f"maxerr:{k}:{sc['family']}"] = max(ctx.artifacts.get(f"maxerr:{k}:{sc['family']}", 0.0), v)
        elif v > TOL[k]:
            raise mk(k, f"normalised error {v:.3g} > {TOL[k]:.3g}: got {got[k].tolist()} want {tr[k].tolist()}")
    return e


def execute(sc, ctx) -> None:
    x = make_data(sc)
    n, mode = sc["n"], sc["mode"]
    tr = truth(x)
    if sc.get("long"):
        ctx.probe("long-stream(>2^16-samples)")
        if n > (1 << 24):
            ctx.probe("long-stream(>2^24-samples)")
    REUSE[0] = bool(sc.get("reuse"))
    if REUSE[0]:
        ctx.probe("chunks-handed-over-in-one-reused-buffer")
    ctx.probe(f"mode:{mode}")
    if sc["family"] == "onebit":
        ctx.probe("1-bit-data")
    if tr["const"].any():
        ctx.probe("constant-channel")
    if sc["family"] == "gauss-bigmean":
        ctx.probe("huge-mean")
    if sc["family"] == "tiny":
        ctx.probe("tiny-amplitude")
    ctx.sig += [mode, sc["family"], f"chunks{min(len(sc['chunks']), 4)}", sc["order"]]
    whole = readout(push(x, [n], mode, n), mode)
    check("whole", whole, tr, mode, sc, ctx)
    parts = sc["chunks"]
    if all(p == 1 for p in parts) and n >= 2:
        ctx.probe("single-sample-chunks")
    part = readout(push(x, parts, mode, n, strided=bool(sc["dseed"] % 3 == 0)), mode)
    if sc["dseed"] % 3 == 0 and len(parts) >= 2:
        ctx.probe("strided-chunk")
    check("partition", part, tr, mode, sc, ctx)
    ctx.log("whole", [float(v) for v in whole["mean"]], "part", len(parts), [float(v) for v in part["mean"]])
    k = sc["k"]
    if n >= 2 and 1 <= k < n:
        a = push(x[:k], sc["chunks_a"], mode, k)
        b = push(x[k:], sc["chunks_b"], mode, n - k)
        if k == 1:
            ctx.probe("merge-k=1")
        if k == n - 1:
            ctx.probe("merge-k=n-1")
        inplace = "+=" in sc["order"]
        if inplace:
            # augmented assignment: `x += y` must give what `x + y` gives (whether or not the class defines __iadd__)
            ctx.probe("merge-by-augmented-assignment")
            left, right = (a, b) if sc["order"] == "a+=b" else (b, a)
            before_right = right.moments.copy()
            merged = left
            merged += right
            if right.moments.tobytes() != before_right.tobytes():
                raise Violation(f"C10/merge/operand-modified/{mode}", "x += y changed y", {"api": "merge", "order": sc["order"]})
        elif sc["order"] == "ba":
            ctx.probe("order:ba")
            merged = b + a
            if (n - k) - k < 0:
                ctx.probe("sign-change-of-count-difference")
        else:
            merged = a + b
            if k - (n - k) < 0:
                ctx.probe("sign-change-of-count-difference")
        before_a, before_b = a.moments.copy(), b.moments.copy()
        if merged.nsamps != n:
            raise Violation(f"C10/merge/nsamps/{mode}", f"{merged.nsamps} != {n}", {"api": "merge"})
        m = readout(merged, mode)
        check("merge", m, tr, mode, sc, ctx)
        if not inplace:
            # adding two accumulators must leave both operands as they were (they may be merged again)
            if a.moments.tobytes() != before_a.tobytes() or b.moments.tobytes() != before_b.tobytes():
                raise Violation(f"C10/merge/operand-modified/{mode}", "a + b changed a or b", {"api": "merge"})
            # ... and merging is repeatable: the same operands give the same sum again
            again = readout((b + a) if sc["order"] == "ba" else (a + b), mode)
            for kk in m:
                if np.asarray(m[kk]).tobytes() != np.asarray(again[kk]).tobytes():
                    raise Violation(f"C10/merge/not-repeatable/{mode}", kk, {"api": "merge"})
            ctx.probe("merge-repeated")
        ctx.log("merge", k, sc["order"], [float(v) for v in m["mean"]])

    t = int(sc.get("tail") or 0)
    if n >= 3 and 1 <= k < n and 1 <= t <= n - k - 1:
        from sigpyproc.core.stats import ChannelStats

        ctx.probe("merged-accumulator-fed-the-rest-of-the-stream")
        a = push(x[:k], sc["chunks_a"], mode, k)
        b = ChannelStats(x.shape[1], n - k)
        off = 0
        for p in _fix(sc["chunks_b"], n - k - t):
            b.push_data(np.ascontiguousarray(x[k + off : k + off + p]).ravel(), off, mode=mode)
            off += p
        if "+=" in sc["order"]:
            left, right = (a, b) if sc["order"] == "a+=b" else (b, a)
            c = left
            c += right
        else:
            c = (b + a) if sc["order"] == "ba" else (a + b)
        off = n - t
        for p in _fix(sc.get("chunks_c") or [t], t):
            c.push_data(np.ascontiguousarray(x[off : off + p]).ravel(), off, mode=mode)
            off += p
        if c.nsamps != n:
            raise Violation(f"C10/merge-then-continue/nsamps/{mode}", f"{c.nsamps} != {n}", {"api": "merge-then-continue"})
        mc = readout(c, mode)
        check("merge-then-continue", mc, tr, mode, sc, ctx)
        ctx.log("merge-then-continue", k, t, [float(v) for v in mc["mean"]])

    if sc.get("cuts"):
        run_tree(sc, ctx, x, tr, mode)


def run_tree(sc, ctx, x, tr, mode) -> None:
    """Three to eight accumulators over consecutive parts of the stream, added pairwise in the scenario's bracketing."""
    from sigpyproc.core.stats import ChannelStats

    n = sc["n"]
    edges = [0] + list(sc["cuts"]) + [n]
    accs = []
    for lo, hi in zip(edges[:-1], edges[1:]):
        accs.append(push(x[lo:hi], composition_fixed(hi - lo, sc["dseed"] + lo), mode, hi - lo))
    if sc.get("tree_empty"):
        # an accumulator that was declared but never received data (a node whose share of the stream was empty)
        accs.insert(sc["dseed"] % (len(accs) + 1), ChannelStats(x.shape[1], 0))
        ctx.probe("tree-merge:never-pushed-accumulator")
    merges = list(sc.get("merges") or [])
    flips = list(sc.get("flips") or [])
    depth = [0] * len(accs)
    i = 0
    while len(accs) > 1:
        j = merges[i] if i < len(merges) else 0
        j = max(0, min(int(j), len(accs) - 2))
        flip = bool(flips[i]) if i < len(flips) else False
        i += 1
        try:
            merged = (accs[j + 1] + accs[j]) if flip else (accs[j] + accs[j + 1])
        except Exception as e:  # noqa: BLE001
            raise Violation(f"C10/tree-merge/raised/{mode}", repr(e)[:300], {"api": "tree-merge", "cuts": sc["cuts"]}) from None
        d = max(depth[j], depth[j + 1]) + 1
        accs[j : j + 2] = [merged]
        depth[j : j + 2] = [d]
    if depth[0] >= 2:
        ctx.probe("tree-merge:sum-of-sums")
    ctx.probe(f"tree-merge:{min(len(edges) - 1, 4)}+parts")
    if accs[0].nsamps != n:
        raise Violation(f"C10/tree-merge/nsamps/{mode}", f"{accs[0].nsamps} != {n}", {"api": "tree-merge"})
    got = readout(accs[0], mode)
    check("tree-merge", got, tr, mode, sc, ctx)
    ctx.log("tree-merge", len(edges) - 1, [float(v) for v in got["mean"]])


def composition_fixed(n, salt) -> list:
    """A deterministic chunking of n samples (no PRNG at execution time)."""
    size = 1 + (salt % 7)
    return blocks(n, size) if n > 0 else []
