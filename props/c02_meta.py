"""C02 static metadata (imported by the driver without importing sigpyproc)."""
LEVEL = "exploration"
QUICK_RUNS = 12000
THOROUGH_BUDGET_S = 600
RULE = (
    "seeded histories (<=14 ops quick, <=40 thorough) of seek(o,0)/seek(o,1)/cread/creadinto/read_block on a "
    "FilReader over 1-3 harness-written SIGPROC files (depth 1..32 bit, per-file header lengths differ; 3% of runs (10% thorough) use 600-3000 samples x 64-1024 channels so that single reads span many kB), arguments "
    "biased to every file boundary +-1, the last byte and out-of-range values; fault runs add R1 short readinto, "
    "R2 EIO, R3 readinto->None at addressed I/O calls. A run is non-trivial when at least one read returned data "
    "and was compared with the byte model; distinct = distinct event-log digests among those."
)
PROBES = [
    "read-ends-at-boundary", "relseek-back-across-boundary", "read-spans-two-boundaries", "cread0",
    "eos-short-buffer-read", "fault-between-reads-of-one-op", "counted-read-past-end-raises",
    "out-of-range-seek-raises", "out-of-range-read_block-raises", "multi-file", "sub-byte",
    "resync-after-raise", "big-blocks", "held-results-rechecked", "non-contiguous-list",
]
COMPONENTS = {
    "real": ["sigpyproc.io.fileio.FileReader (seek/cread/creadinto/_seek2hdr/_seek_set/cur_data_pos_stream)",
             "sigpyproc.readers.FilReader.read_block", "sigpyproc.io.sigproc.parse_header_multi (real files, fault-free)",
             "sigpyproc.io.bits.unpack + numba kernels", "numpy.fromfile on a real descriptor (tmpfs)"],
    "simulated": ["io.FileIO -> SimFileIO (every readinto is an event; short/EIO/None faults)",
                  "np.fromfile inside fileio (event; EIO fault)", "the input files (harness encoder, not the library's)"],
    "stubbed": [],
}
ASSUMPTIONS = [
    "offsets are multiples of the item size at 16/32 bit (a mis-aligned item stream is outside the statement)",
    "cread counts are multiples of 8/nbits",
    "fault configuration asserts exact-or-raises, never wrong data; fault-free configuration asserts exact equality",
    "header parsing (Path.open) is outside the seam and runs fault-free",
]

# dimensions added in seeded rounds 6 and 7
PROBES = list(PROBES) + ["integer-arguments-as-numpy-scalars"]

# dimensions added in seeded round 9
PROBES = list(PROBES) + ["multi-gigabyte-sparse-stream", "position-beyond-2^31", "position-beyond-2^32"]
RULE = RULE + (" Round 9: 3% of runs use multi-gigabyte SPARSE streams (2-3 files of 0.5-4 GiB on tmpfs, data only in 384-byte windows around file boundaries, 2^31, 2^32, 3*2^31; "
               "the byte model is a function of the offset), with seeks, counted/buffer reads and read_block placed there; header key order / optional keys varied; symlinked observations.")
ASSUMPTIONS = list(ASSUMPTIONS) + ["an integer argument is handed over as np.int32 only when the value fits 32 bits (otherwise as np.int64): a caller's 32-bit scalar cannot hold it"]

# dimensions added in seeded round 10
RULE = RULE + " Round 10: a fifth of the small file sets first hold an earlier recording of exactly the same byte size with a 4-byte longer header at the same paths (opened, read, dropped); free-text header strings of 0-700 characters in 12% of the sets."

# dimensions added in seeded round 11
RULE = RULE + " Round 11: a quarter of the large sets are cut into (almost) equal files of 100-140 thousand samples whose lengths differ by 0-2 samples."
