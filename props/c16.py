"""C16 - RFI cleaning masks exactly the flagged channels and nothing else."""
from __future__ import annotations

import os
import zlib

import numpy as np

from sim import filgen
from sim.core import nint, open_reader, Rejected, SimLivelock, Violation
from sim.disk import SimDisk

from .c02 import after_list_removal  # noqa: F401
from .c07 import blocks_of, compare_output

ID = "C16"
VARY_WRITE_CAP = True  # W4: partial raw data writes (sim.disk)
VARY_KNOBS = True  # module-level tuning constants of the library are lowered in some runs (sim.core.lower_tuning_constants)
VARY_ARGFORM = True  # integer call arguments also arrive as numpy integer scalars
GUARD_KERNELS = True
SHRINK_LISTS = ("ops", "faults", "ranges", ("files", "nsamps"))
SHRINK_MIN = {"nchans": 2, "nbits": 1, "gulp": 1}
SHRINK_SIMPLE = {"write_cap": None, "knobs": None, "argform": "int", "refused_first": None, "seqform": "list"}
SEQFORMS = ["list", "list", "list", "tuple", "ndarray", "zip", "generator", "map"]
FCH1, FOFF = 1500.0, -0.5
BANDS = [(1500.0, -0.5), (1581.804688, -0.390625), (1400.1, 0.3)]  # float32-exact and not


def band_of(sc):
    b = sc.get("band")
    return tuple(b) if b else (FCH1, FOFF)


def warm() -> None:
    import props.c06 as c06

    c06.warm()
    import sigpyproc.core.rfi  # noqa: F401


# ------------------------------------------------------------------ generation
def gen_ranges(rng, nchans, band=(FCH1, FOFF)):
    fch1, foff = band
    cen = [fch1 + c * foff for c in range(nchans)]  # centres as the header defines them, in double precision
    if rng.random() < 0.3:  # ... or as the float32 channel-frequency array holds them
        cen = [float(x) for x in (np.arange(nchans, dtype=np.float32) * foff + fch1)]
    lo_band, hi_band = min(cen), max(cen)
    out = []
    for _ in range(rng.choice([0, 1, 1, 2, 3])):
        r = rng.random()
        if r < 0.3:  # exactly on channel centres
            a, b = sorted(rng.sample(range(nchans), 2)) if nchans > 1 else (0, 0)
            out.append(sorted([cen[b], cen[a]]))
        elif r < 0.45:
            c = rng.randrange(nchans)
            out.append([cen[c], cen[c]])
        elif r < 0.6:  # outside the band
            out.append([hi_band + 1.1, hi_band + 5.3] if rng.random() < 0.5 else [lo_band - 9.7, lo_band - 0.3])
        else:
            a = rng.uniform(lo_band - 1, hi_band + 1)
            b = a + rng.uniform(0, 4)
            out.append([a, b])  # ends that fall within 1e-3 MHz of a centre are rejected at execution (margin rule)
    return out


def gen_stats(rng, nchans):
    fam = rng.choice(["noise", "noise", "outliers", "outliers", "equal"])
    r = np.random.default_rng(rng.randrange(1 << 30))
    vecs = {}
    for k, (mu, sd) in {"mean": (10, 1), "var": (4, 0.3), "skew": (0, 0.1), "kurt": (0, 0.2), "maxima": (20, 1), "minima": (0, 1)}.items():
        v = np.full(nchans, float(mu)) if fam == "equal" else r.normal(mu, sd, size=nchans)
        vecs[k] = v
    if fam == "outliers":
        for _ in range(rng.randint(1, 3)):
            k = rng.choice(["var", "skew", "kurt"])
            vecs[k][rng.randrange(nchans)] += rng.choice([-1, 1]) * rng.choice([5, 20, 100, 1000])
    return {k: [round(float(x), 5) for x in v] for k, v in vecs.items()}, fam


def generate(rng, tier) -> dict:
    if rng.random() < 0.55:
        nchans = rng.randint(2, 32)
        band = rng.choice(BANDS)
        stats, fam = gen_stats(rng, nchans)
        ops = []
        for _ in range(rng.randint(1, 6)):
            k = rng.random()
            if k < 0.4:
                ops.append({"op": "apply_mask", "ranges": gen_ranges(rng, nchans, band)})
            elif k < 0.75:
                ops.append({"op": "apply_method", "method": rng.choice(["mad", "iqrm"])})
            else:
                ops.append({"op": "apply_funcn", "fn": rng.choice(["identity", "none", "every3", "first", "last"])})
        def one_op():
            k = rng.random()
            if k < 0.4:
                return {"op": "apply_mask", "ranges": gen_ranges(rng, nchans, band)}
            if k < 0.75:
                return {"op": "apply_method", "method": rng.choice(["mad", "iqrm"])}
            return {"op": "apply_funcn", "fn": rng.choice(["identity", "none", "every3", "first", "last"])}

        if rng.random() < 0.3:
            # a SECOND mask object derived from this one in mid-history (a what-if at another threshold, a snapshot
            # kept before going on, a mask rebuilt from the arrays of another) and worked on; the two are
            # independent objects from then on
            ops.insert(rng.randint(0, len(ops)), {"op": "derive", "how": rng.choice(["evolve", "copy", "ctor", "deepcopy"]),
                                                  "threshold": rng.choice([3.0, 2.0, 5.0, 1.5]), "sub": [one_op() for _ in range(rng.randint(1, 2))]})
        return {"kind": "mask", "nchans": nchans, "band": list(band), "threshold": rng.choice([3.0, 2.0, 5.0, 1.5]), "stats": stats, "family": fam, "ops": ops, "faults": [],
                "seqform": rng.choice(SEQFORMS)}
    nbits = rng.choice([1, 2, 4, 8, 8, 32])
    nchans = rng.choice([c for c in (2, 4, 8, 12, 16) if (c * nbits) % 8 == 0])
    nfiles = rng.choice([1, 1, 2])
    mx = 60 if tier == "quick" else 200
    counts = [rng.randint(4, mx // nfiles) for _ in range(nfiles)]
    N = sum(counts)
    band = rng.choice(BANDS)
    spec = {"nbits": nbits, "nchans": nchans, "nsamps": counts, "pad": filgen.gen_pads(rng, nfiles, 0), "vseed": rng.randrange(1 << 16),
            "mode": "small", "fch1": band[0], "foff": band[1]}
    r = rng.random()
    if r < 0.4:
        start, nsamps = 0, None
    elif r < 0.55:
        start, nsamps = rng.randint(0, N - 4), None
    else:
        start = rng.randint(0, N - 4)
        nsamps = rng.randint(4, N - start)
    ns = N - start if nsamps is None else nsamps
    if nbits == 32 and rng.random() < 0.3:
        # float data with inf / NaN / -0.0 in it (a saturated or corrupted channel is what one wants to flag);
        # the statistics are then NaN in places, so the user mask carries the scenario and the mask value is explicit
        spec["mode"] = "bits"
    top = (1 << nbits) - 1 if nbits < 32 else 100
    sc = {"kind": "clean", "files": spec, "start": start, "nsamps": nsamps, "method": rng.choice(["mad", "iqrm"]),
          "threshold": rng.choice([3.0, 2.0, 1.5]), "ranges": gen_ranges(rng, nchans, band), "fn": rng.choice([None, None, "every3", "first", "last", "none"]),
          "mask_value": rng.choice([None, 0, top, rng.randint(0, top)] + ([-1.5, 2.75, -100.0] if nbits == 32 else [])),
          "ops": [{"gulp": max(1, rng.choice([1, 2, 3, rng.randint(1, ns), ns, ns + 2, max(1, ns // 3)]))} for _ in range(2)], "faults": [],
          "seqform": rng.choice(SEQFORMS)}
    if spec["mode"] == "bits":
        sc["mask_value"] = rng.choice([0, 7.5, -1.5])
        sc["ranges"] = sc["ranges"] or gen_ranges(rng, nchans, band) or [[band[0] - 1, band[0] + 1]]
    if rng.random() < 0.2:
        sc["faults"].append({"kind": rng.choice(["R1", "R2", "W3"]), "op": rng.randrange(2), "call": rng.choice([0, 1, 2, 3, 5]), "arg": rng.randint(0, 20)})
    sc["refused_first"] = rng.choice([None, None, None, "clean_rfi", "compute_stats", "compute_stats_basic"])
    if rng.random() < (0.004 if tier == "quick" else 0.012):
        # one block of more than 2^22 samples x channels, a channel count that no thread count divides, masked channels at
        # both ends of the band, more than one numba thread: block-size dependent paths of the cleaning loop
        nch = rng.choice([1009, 1021, 1031])
        n = rng.randint(4200, 5000)
        spec.update({"nbits": 8, "nchans": nch, "nsamps": [n], "pad": [0], "mode": "small", "big": True})
        cen = [band[0] + c * band[1] for c in range(nch)]
        sc.update({"start": 0, "nsamps": None, "ranges": [sorted([cen[nch - 1] - 0.2 * abs(band[1]), cen[nch - 3] + 0.2 * abs(band[1])]), [cen[0] - 0.2 * abs(band[1]), cen[0] + 0.2 * abs(band[1])]],
                   "ops": [{"gulp": rng.choice([16384, n, n + 7])}, {"gulp": rng.choice([1000, 333])}], "faults": [], "mask_value": rng.choice([0, 3]),
                   "fn": None, "refused_first": None, "seqform": "list", "numba_threads": rng.choice([3, 4]), "huge": True})
    return sc


def fixup(sc):
    if sc["kind"] == "mask":
        n = max(2, sc["nchans"])
        sc["nchans"] = n
        for k, v in sc["stats"].items():
            sc["stats"][k] = (list(v) + [v[-1]] * n)[:n]
        if not sc["ops"]:
            return None
        return sc
    f = sc["files"]
    if f["nbits"] not in (1, 2, 4, 8, 16, 32) or f["nchans"] < 2 or (f["nchans"] * f["nbits"]) % 8:
        return None
    f["nsamps"] = [n for n in f["nsamps"] if n >= 1][:2]
    if not f["nsamps"] or not sc["ops"]:
        return None
    f["pad"] = (list(f.get("pad") or []) + [0, 0, 0])[: len(f["nsamps"])]
    N = sum(f["nsamps"])
    sc["start"] = max(0, min(sc["start"], N - 1))
    if sc["nsamps"] is not None:
        sc["nsamps"] = max(1, min(sc["nsamps"], N - sc["start"]))
    for o in sc["ops"]:
        o["gulp"] = max(1, o["gulp"])
    sc["faults"] = [x for x in sc["faults"] if 0 <= x.get("op", -1) < len(sc["ops"])]
    return sc


def nontrivial(sc, ctx) -> bool:
    return ctx.probes.get("compared-clean", 0) > 0 or (sc["kind"] == "mask" and len(sc["ops"]) >= 2)


def ranges_as(ranges, form, ctx=None, freqs32=None):
    """The frequency ranges in one of the forms a caller has them in: a list of pairs (the annotated form), a tuple, an
    (n, 2) array, or a one-shot iterable (zip(lows, highs), a generator expression, map) - "an iterable of (low, high)"."""
    pairs = [tuple(r) for r in ranges]
    form = form or "list"
    if form == "ndarray" and (freqs32 is None or any(np.any(np.abs(np.asarray(freqs32, dtype=np.float64) - e) < 1e-3) for p in pairs for e in p)):
        # an end ON a channel centre is decided at the precision the comparison happens in: Python floats are compared at the
        # float32 precision of the library's centres, float64 array elements are not - the representation would decide, so
        # such ranges keep the annotated form
        form = "list"
    if ctx is not None and form != "list":
        ctx.probe("ranges-given-as:" + form)
    if form == "tuple":
        return tuple(pairs)
    if form == "ndarray":
        return np.array(pairs, dtype=np.float64).reshape(len(pairs), 2)
    if form == "zip":
        return zip([p[0] for p in pairs], [p[1] for p in pairs])
    if form == "generator":
        return (p for p in pairs)
    if form == "map":
        return map(tuple, pairs)
    return pairs


# ------------------------------------------------------------------ models
def custom_fn(name):
    def identity(m):
        return m.copy()

    def none(m):
        return np.zeros_like(m)

    def every3(m):
        out = np.zeros_like(m)
        out[::3] = True
        return out

    def first(m):
        out = np.zeros_like(m)
        out[0] = True
        return out

    def last(m):
        out = np.zeros_like(m)
        out[-1] = True
        return out

    return {"identity": identity, "none": none, "every3": every3, "first": first, "last": last}[name]


def model_user(chan_freqs32, ranges, ctx=None, band=None):
    """Closed-interval membership of the channel centres.  The library represents channel frequencies
    in float32; a range end is "on" a centre when it equals it at that precision (float32(end) ==
    centre) - then that channel is inside - or it is at least 1e-3 MHz away from every centre.
    Anything in between is rejected (margin rule: the representation would decide, not the property)."""
    c32 = chan_freqs32.astype(np.float64)
    m = np.zeros(len(c32), dtype=bool)
    for lo, hi in ranges:
        for end in (lo, hi):
            e32 = float(np.float32(end))
            d = np.abs(c32 - end)
            on = c32 == e32
            if np.any((d < 1e-3) & ~on):
                raise Rejected("range end within 1e-3 MHz of a channel centre")
            if on.any() and ctx is not None:
                ctx.probe("range-exactly-on-channel-centre")
                if e32 != end:
                    ctx.probe("range-end-on-a-centre-not-exact-in-float32")
        m |= (c32 >= lo - 5e-4) & (c32 <= hi + 5e-4)
    return m


def model_stats(vecs, method, thr):
    """Thresholding / lag structure / OR modelled here; z-scores from the library's estimator."""
    from sigpyproc.core import stats

    def over(z):
        z = np.abs(np.asarray(z, dtype=np.float64))
        if np.any(np.abs(z - thr) < 1e-3 * thr):
            raise Rejected("z-score within the margin of the threshold")
        return z > thr

    out = None
    for v in vecs:
        v = np.asarray(v)
        if method == "mad":
            m = over(stats.estimate_zscore(v, scale_method="doublemad").data)
        else:
            radius = 5
            m = np.zeros(len(v), dtype=bool)
            padded = np.concatenate([np.full(radius, v[0]), v, np.full(radius, v[-1])])
            for lag in list(range(-radius, 0)) + list(range(1, radius + 1)):
                diff = v - padded[radius + lag : radius + lag + len(v)]
                m |= over(stats.estimate_zscore(diff, scale_method="iqr").data)
        out = m if out is None else (out | m)
    return out


# ------------------------------------------------------------------ execution
def execute(sc, ctx) -> None:
    if sc["kind"] == "mask":
        exec_mask(sc, ctx)
    else:
        exec_clean(sc, ctx)


def exec_mask(sc, ctx) -> None:
    from sigpyproc.core.rfi import RFIMask

    from .c04 import base_header

    n = sc["nchans"]
    band = band_of(sc)
    hdr = base_header(ctx, 1).new_header({"nchans": n, "fch1": band[0], "foff": band[1], "nbits": 8})
    st = {k: np.array(v, dtype=np.float32) for k, v in sc["stats"].items()}
    thr = sc["threshold"]
    m = RFIMask(thr, hdr, st["mean"], st["var"], st["skew"], st["kurt"], st["maxima"], st["minima"])
    if sc["family"] == "equal":
        ctx.probe("all-equal-vector")
    if len(sc["ops"]) >= 3:
        ctx.probe("history>=3")
    ctx.sig += ["mask", sc["family"], f"len{min(len(sc['ops']), 4)}"]
    ALL = np.zeros(n, dtype=bool)
    last = {"user": np.zeros(n, dtype=bool), "stats": np.zeros(n, dtype=bool), "custom": np.zeros(n, dtype=bool)}
    freqs32 = np.asarray(hdr.chan_freqs, dtype=np.float32)
    derived = []  # (object, its own model {ALL, user, stats, custom}, how)

    def masks_of(obj):
        return {"chan": np.array(obj.chan_mask, dtype=bool), "user": np.array(obj.user_mask, dtype=bool),
                "stats": np.array(obj.stats_mask, dtype=bool), "custom": np.array(obj.custom_mask, dtype=bool)}

    def check_derived(when):
        for obj, mod, how in derived:
            g = masks_of(obj)
            for k, want_k in (("chan", mod["ALL"]), ("user", mod["user"]), ("stats", mod["stats"]), ("custom", mod["custom"])):
                if not np.array_equal(g[k], want_k):
                    raise Violation(f"C16/derived-mask/{k}-mask-changed-by-an-operation-on-another-object", f"{how}: {when}: got {np.nonzero(g[k])[0].tolist()} want {np.nonzero(want_k)[0].tolist()}",
                                    {"api": "derive", "how": how, "nchans": n})

    for i, op in enumerate(sc["ops"]):
        prev = np.array(m.chan_mask).copy()
        info = {"api": op["op"], "op_index": i, "nchans": n, "threshold": thr, **{k: v for k, v in op.items() if k != "op"}}

        def mk(clause, detail):
            return Violation(f"C16/{op['op']}/{clause}", detail, info)

        if op["op"] == "derive":
            import copy as _copy

            import attrs as _attrs

            how, thr2 = op["how"], float(op["threshold"])
            before = masks_of(m)
            try:
                if how == "evolve":
                    d = _attrs.evolve(m, threshold=thr2)
                elif how == "copy":
                    d, thr2 = _copy.copy(m), thr
                elif how == "deepcopy":
                    d, thr2 = _copy.deepcopy(m), thr
                else:
                    d = RFIMask(thr2, hdr, st["mean"], st["var"], st["skew"], st["kurt"], st["maxima"], st["minima"],
                                chan_mask=m.chan_mask, user_mask=m.user_mask, stats_mask=m.stats_mask, custom_mask=m.custom_mask)
            except Exception as e:  # noqa: BLE001 - making the second object is context: if the library does not support this way, nothing is judged
                ctx.observations[f"derive-{how}-raised:{type(e).__name__}"] += 1
                continue
            mod = {"ALL": ALL.copy(), "user": last["user"].copy(), "stats": last["stats"].copy(), "custom": last["custom"].copy()}
            for sub in op["sub"]:
                if sub["op"] == "apply_mask":
                    w = model_user(freqs32, sub["ranges"], ctx, band)
                    d.apply_mask(ranges_as(sub["ranges"], sc.get("seqform"), ctx, freqs32))
                    mod["user"] = w
                elif sub["op"] == "apply_method":
                    w = model_stats([st["var"], st["skew"], st["kurt"]], sub["method"], thr2)
                    d.apply_method(sub["method"])
                    mod["stats"] = w
                else:
                    w = custom_fn(sub["fn"])(mod["ALL"].copy())
                    d.apply_funcn(custom_fn(sub["fn"]))
                    mod["custom"] = w
                mod["ALL"] = mod["ALL"] | w
            derived.append((d, mod, how))
            check_derived("right after its own operations")
            after = masks_of(m)
            for k in before:
                if not np.array_equal(before[k], after[k]):
                    raise mk(f"{k}-mask-changed-by-an-operation-on-another-object", f"{how}: original had {np.nonzero(before[k])[0].tolist()}, now {np.nonzero(after[k])[0].tolist()}")
            ctx.probe("second-mask-object-derived:" + how)
            ctx.log("derive", i, how, np.packbits(after["chan"]).tobytes().hex())
            continue
        if op["op"] == "apply_mask":
            want = model_user(freqs32, op["ranges"], ctx, band)
            m.apply_mask(ranges_as(op["ranges"], sc.get("seqform"), ctx, freqs32))
            last["user"] = want
        elif op["op"] == "apply_method":
            want = model_stats([st["var"], st["skew"], st["kurt"]], op["method"], thr)
            m.apply_method(op["method"])
            last["stats"] = want
            ctx.probe(f"method:{op['method']}")
        else:
            want = custom_fn(op["fn"])(ALL.copy())
            m.apply_funcn(custom_fn(op["fn"]))
            last["custom"] = want
        ALL |= want
        got = {"chan": np.array(m.chan_mask, dtype=bool), "user": np.array(m.user_mask, dtype=bool),
               "stats": np.array(m.stats_mask, dtype=bool), "custom": np.array(m.custom_mask, dtype=bool)}
        ctx.log("op", i, op["op"], np.packbits(got["chan"]).tobytes().hex())
        if np.any(prev & ~got["chan"]):
            raise mk("mask-shrank", f"channels {np.nonzero(prev & ~got['chan'])[0].tolist()} were unmasked by a further mask")
        for k in ("user", "stats", "custom"):
            if not np.array_equal(got[k], last[k]):
                raise mk(f"{k}-mask", f"got {np.nonzero(got[k])[0].tolist()} want {np.nonzero(last[k])[0].tolist()}")
        if not np.array_equal(got["chan"], ALL):
            extra = np.nonzero(got["chan"] & ~ALL)[0].tolist()
            miss = np.nonzero(~got["chan"] & ALL)[0].tolist()
            raise mk("chan-mask-is-not-the-union", f"extra {extra} missing {miss}")
    check_derived("after the original's later operations")
    if ALL[0]:
        ctx.probe("mask-touches-first-channel")
    if ALL[-1]:
        ctx.probe("mask-touches-last-channel")
    if not ALL.any():
        ctx.probe("empty-final-mask")
    # (c) file round trip (h5py: real, fault-free)
    path = m.to_file(os.path.join(ctx.root, "mask.h5"))
    m2 = RFIMask.from_file(path)
    ctx.probe("file-roundtrip")
    info = {"api": "to_file/from_file", "nchans": n}
    for k in ("chan_mean", "chan_var", "chan_skew", "chan_kurt", "chan_maxima", "chan_minima", "chan_mask", "user_mask", "stats_mask", "custom_mask"):
        a, b = np.asarray(getattr(m, k)), np.asarray(getattr(m2, k))
        if a.shape != b.shape or a.dtype != b.dtype or a.tobytes() != b.tobytes():
            raise Violation(f"C16/from_file/array-{k}", f"{a.tolist()} vs {b.tolist()}", info)
    if float(m2.threshold) != float(m.threshold):
        raise Violation("C16/from_file/threshold", f"{m2.threshold} != {m.threshold}", info)
    for k in ("nchans", "foff", "fch1", "nbits", "tsamp", "tstart", "nsamples", "data_type", "telescope", "backend", "source", "dm", "nifs", "filename"):
        if getattr(m2.header, k) != getattr(m.header, k):
            raise Violation(f"C16/from_file/header-{k}", f"{getattr(m2.header, k)!r} != {getattr(m.header, k)!r}", info)


def exec_clean(sc, ctx) -> None:
    from sigpyproc.readers import FilReader

    spec = sc["files"]
    fs = filgen.write_fileset(ctx.root, spec)
    N, nbits, nchans = fs.nsamples, spec["nbits"], spec["nchans"]
    start, nsamps = sc["start"], sc["nsamps"]
    ns = N - start if nsamps is None else nsamps
    X = fs.samples[start : start + ns]
    if nbits < 8:
        ctx.probe("sub-byte")
    if spec.get("mode") == "bits":
        ctx.probe("clean:non-finite-samples")
    ctx.sig += ["clean", f"nbits{nbits}", sc["method"], str(sc["fn"])]
    thr = sc["threshold"]
    crcs = []
    with SimDisk(ctx, sc["faults"]) as sim:
        for i, op in enumerate(sc["ops"]):
            gulp = op["gulp"]
            nblk = blocks_of(ns, min(gulp, ns))
            if nblk >= 3:
                ctx.probe(">=3-blocks")
            reader = open_reader("C16", fs.paths)  # fresh reader: clean_rfi caches the statistics on the object
            sim.begin_op(i, budget=64 * (nblk + 2) * (len(spec["nsamps"]) + 2) + 64)
            sim.free_space()
            fired0 = sum(ctx.faults.values())
            info = {"api": "clean_rfi", "gulp": gulp, "start": start, "nsamps": ns, "N": N, "nbits": nbits, "nchans": nchans,
                    "method": sc["method"], "threshold": thr, "ranges": sc["ranges"], "fn": sc["fn"], "mask_value": sc["mask_value"], "op_index": i}
            raised = None
            out = rm = None
            if (sc["files"]["vseed"] + i) % 3 == 0:
                # left by an earlier run: a LONGER file of arbitrary bytes under the output name
                with open(os.path.join(ctx.root, f"clean{i}.fil"), "wb") as fp:
                    fp.write(bytes((j * 37 + 11) & 0xFF for j in range(2048 + N * sc["files"]["nchans"] * 4)))
                ctx.probe("output-name-held-a-longer-file")
            if sc.get("refused_first") and not sc["faults"]:
                # the same object was first asked for something the library refuses by itself (a range beyond the end
                # of the data); it is then used again
                try:
                    if sc["refused_first"] == "clean_rfi":
                        reader.clean_rfi(method=sc["method"], threshold=thr, outfile_name=os.path.join(ctx.root, f"refused{i}.fil"), gulp=nint(gulp), start=nint(N + 3), nsamps=nint(2), quiet=True)
                    else:
                        getattr(reader, sc["refused_first"])(gulp=nint(gulp), start=nint(N + 3), nsamps=nint(2), quiet=True)
                    ctx.observations["out-of-range-call-was-not-refused"] += 1
                except Exception as e:  # noqa: BLE001 - context
                    ctx.observations["refused-first:" + type(e).__name__] += 1
                ctx.probe("object-used-again-after-a-call-it-refused")
            try:
                out, rm = reader.clean_rfi(method=sc["method"], threshold=thr, freq_mask=(ranges_as(sc["ranges"], sc.get("seqform"), ctx, np.asarray(reader.header.chan_freqs, dtype=np.float32)) if sc["ranges"] else None),
                                           custom_funcn=custom_fn(sc["fn"]) if sc["fn"] else None, mask_value=sc["mask_value"],
                                           outfile_name=os.path.join(ctx.root, f"clean{i}.fil"), gulp=nint(gulp), start=nint(start), nsamps=nint(nsamps), quiet=True)
            except SimLivelock as e:
                raise Violation("C16/clean_rfi/livelock", str(e), info) from None
            except Violation:
                raise
            except Exception as e:  # noqa: BLE001
                raised = e
            fault = sum(ctx.faults.values()) > fired0
            tag = "fault" if fault else "nofault"

            def mk(clause, detail, _tag=tag, _info=info):
                return Violation(f"C16/clean_rfi/{clause}/{_tag}", detail, _info)

            if raised is not None:
                ctx.log("clean", i, gulp, type(raised).__name__)
                if not fault:
                    raise mk("raised", repr(raised)[:300])
                ctx.probe("fault-raised")
                continue
            M = np.array(rm.chan_mask, dtype=bool)
            if np.all(np.isfinite(X.astype(np.float64))) and float(np.abs(X.astype(np.float64)).max()) < 1e6:  # moments of larger values leave float32
                # the statistics the mask carries are those of the cleaned range (a fresh reader computes them in this call)
                from .c06 import compare_stats, two_pass

                got_st = {"count": np.full(nchans, ns), "mean": np.asarray(rm.chan_mean, dtype=np.float64), "var": np.asarray(rm.chan_var, dtype=np.float64),
                          "min": np.asarray(rm.chan_minima), "max": np.asarray(rm.chan_maxima)}
                compare_stats(got_st, two_pass(X), "compute_stats_basic", lambda c, d: mk("statistics-are-not-those-of-the-cleaned-range/" + c, d))
                ctx.probe("mask-statistics-compared-with-the-data")
            user = model_user(np.asarray(reader.header.chan_freqs, dtype=np.float32), sc["ranges"], ctx, (spec["fch1"], spec["foff"]))
            stats_m = model_stats([np.asarray(rm.chan_var), np.asarray(rm.chan_skew), np.asarray(rm.chan_kurt)], sc["method"], thr)
            cust = custom_fn(sc["fn"])(user | stats_m) if sc["fn"] else np.zeros(nchans, dtype=bool)
            for k, want in (("user", user), ("stats", stats_m), ("custom", cust)):
                got = np.array(getattr(rm, f"{k}_mask"), dtype=bool)
                if not np.array_equal(got, want):
                    raise mk(f"{k}-mask", f"got {np.nonzero(got)[0].tolist()} want {np.nonzero(want)[0].tolist()}")
            union = user | stats_m | cust
            if not np.array_equal(M, union):
                raise mk("chan-mask-is-not-the-union", f"got {np.nonzero(M)[0].tolist()} union {np.nonzero(union)[0].tolist()}")
            if M[0]:
                ctx.probe("mask-touches-first-channel")
            if M[-1]:
                ctx.probe("mask-touches-last-channel")
            if not M.any():
                ctx.probe("empty-final-mask")
            mv = sc["mask_value"]
            if mv is None:
                if M.all():
                    continue  # median of an empty set: no mask value defined
                mv = np.median(np.asarray(rm.chan_mean)[~M])
                ctx.probe("clean:default-mask-value")
            want = X.copy()
            want[:, M] = np.float32(mv).astype(X.dtype)

            class Exp:
                pass

            exp = Exp()
            exp.nchans, exp.nbits, exp.data, exp.cmp, exp.alt, exp.label = nchans, nbits, want, "exact", None, "cleaned"
            crcs.append((compare_output(out, exp, ns, mk, ctx), M.tobytes(), sc["mask_value"] is not None))
            ctx.probe("compared-clean")
            ctx.log("clean", i, gulp, np.packbits(M).tobytes().hex(), crcs[-1][0])
            reader._file.close()
        if len(crcs) == 2:
            ctx.probe("clean:two-gulps")
            # the statistics (hence a statistics-derived mask or default mask value) may differ in the
            # last float32 bits between chunkings (C10); only with equal masks and an explicit mask
            # value must the two cleaned files be identical
            if crcs[0][1] == crcs[1][1] and crcs[0][2] and crcs[0][0] != crcs[1][0]:
                raise Violation("C16/clean_rfi/gulp-dependence", "cleaned files differ between two gulps", {"api": "clean_rfi"})
