"""C04 - what is written is what is read back, for every format and sample depth."""
from __future__ import annotations

import os
import zlib

import numpy as np

from sim import filgen
from sim.core import SimLivelock, Violation
from sim.disk import SimDisk

from .c02 import after_list_removal  # noqa: F401

ID = "C04"
VARY_WRITE_CAP = True  # W4: partial raw data writes (sim.disk)
VARY_KNOBS = True  # module-level tuning constants of the library are lowered in some runs (sim.core.lower_tuning_constants)
SHRINK_LISTS = ("ops", "faults")
SHRINK_MIN = {"nchans": 1, "nbits": 1, "n": 1}
SHRINK_SIMPLE = {"write_cap": None, "knobs": None, "stale": 0, "hdr_pad": 0, "companion": 0}
KINDS = ["fil", "fil", "fil", "block", "tim", "dat", "spec", "fft"]
DT = ["uint8", "uint16", "int64", "float32", "float64"]
# further in-memory types a caller holds (astropy hands out big-endian arrays; integer arithmetic gives int32/int16):
# same item WIDTH as some file depth but another kind or byte order; always filled with representable values
DT_FOREIGN = ["int32", "uint32", "int16", ">u2", ">f4", ">i4", "float16"]
DT_TOP = {"uint8": 255, "int16": 32767, "float16": 2048}


def warm() -> None:
    import props.c07 as c07

    c07.warm()
    from sigpyproc.io import bits

    for nb in (1, 2, 4):
        bits.pack(np.zeros(8, dtype=np.uint8), nb, bitorder="little" if nb == 1 else "big")


def generate(rng, tier) -> dict:
    kind = rng.choice(KINDS)
    sc = {"kind": kind, "vseed": rng.randrange(1 << 16),
          "tsamp": rng.choice([0.001, 6.4e-5, 0.000256, 1.0 / 3.0, rng.uniform(1e-5, 1e-1)]),
          "tstart": rng.choice([58000.0, 50000.123456789, rng.uniform(40000, 60000)]),
          "dm": rng.choice([0.0, 12.5, rng.uniform(0, 2000)]), "close": rng.random() < 0.6, "ops": [], "faults": []}
    mx = 24 if tier == "quick" else 96
    if kind == "fil":
        d = rng.choice([1, 2, 4, 8, 16, 32])
        sc["nbits"] = d
        sc["nchans"] = rng.choice([c for c in (1, 2, 3, 4, 8) if (c * d) % 8 == 0])
        big = rng.random() < (0.03 if tier == "quick" else 0.08)
        if big:  # chunks of several kB: size thresholds (pages, coalescing buffers)
            sc["nchans"] = rng.choice([c for c in (64, 128, 416) if (c * d) % 8 == 0])
            sc["big"] = True
            mx = 900
        for _ in range(rng.randint(1, 6)):
            natural = {1: "uint8", 2: "uint8", 4: "uint8", 8: "uint8", 16: "uint16", 32: "float32"}[d]
            dt = natural if rng.random() < 0.5 else rng.choice(DT)
            foreign = rng.random() < 0.15
            if foreign:
                dt = rng.choice(DT_FOREIGN)
            sc["ops"].append({"op": "cwrite", "n": rng.randint(1, mx // 3), "dtype": dt, "vals": "rep" if (foreign or rng.random() < 0.85) else "unrep",
                              "layout": rng.choice(["1d", "1d", "1d", "1d-strided", "2d-C", "2d-F"])})
        if rng.random() < (0.002 if tier == "quick" else 0.01):
            # ONE write of more than 2^24 samples (a whole observation handed over at once): counts beyond 2^24 are where a
            # piece-wise path, a float32 count or a 32-bit size starts to matter; odd sample counts make pieces ragged
            sc["nchans"] = rng.choice([c for c in (8, 24, 64) if (c * d) % 8 == 0])
            natural = {1: "uint8", 2: "uint8", 4: "uint8", 8: "uint8", 16: "uint16", 32: "float32"}[d]
            sc["ops"] = [{"op": "cwrite", "n": (1 << 24) // sc["nchans"] + rng.choice([1, 3, 1001, 70001]), "dtype": natural, "vals": "rep", "layout": rng.choice(["1d", "2d-C"])}]
            sc["huge"] = True
            sc.pop("big", None)
        sc["reads"] = [[rng.random(), rng.random()] for _ in range(2)]
        # an EARLIER product written from the same header at another depth (a session that writes several files)
        sc["pre_depth"] = rng.choice([None, None, 1, 2, 4, 8, 16, 32])
        sc["gulp"] = rng.randint(1, mx)
        if sc.get("huge"):
            sc["gulp"] = sc["ops"][0]["n"] // rng.choice([1, 3, 7]) + 1  # read back in a few blocks, not in a million
            sc["pre_depth"] = None
        if rng.random() < 0.2:
            sc["faults"].append({"kind": "W3", "op": 0, "call": rng.randint(1, len(sc["ops"])), "arg": rng.randint(0, 12)})
    else:
        sc["n"] = rng.randint(1, mx)
        sc["nchans"] = rng.choice([1, 2, 4]) if kind == "block" else 1
        sc["mode"] = rng.choice(["bits", "ramp"])
        sc["dotted"] = rng.random() < 0.3
        sc["companion"] = rng.choice([0, 0, 1, 3, 8, 15]) if kind == "fft" else 0
        if rng.random() < 0.15 and kind in ("block", "tim", "dat", "spec"):
            sc["faults"].append({"kind": "W3", "op": 0, "call": rng.choice([0, 1]), "arg": rng.randint(0, 12)})
    # the output path already holds a LONGER file (an earlier run of the same script with a longer range):
    # state left on the disk by a previous session, which the new product must replace, not overlay
    sc["stale"] = rng.choice([0, 0, 0, 1, 7, 64, rng.randint(1, 4096)])
    sc["hdr_pad"] = rng.choice([0, 0, rng.randint(0, 9), rng.randint(0, 700), rng.randint(0, 700)])
    return sc


def fixup(sc):
    if sc["kind"] == "fil":
        d = sc["nbits"]
        if d not in (1, 2, 4, 8, 16, 32) or sc["nchans"] < 1 or (sc["nchans"] * d) % 8 or not sc["ops"]:
            return None
        for o in sc["ops"]:
            o["n"] = max(1, o["n"])
        sc["gulp"] = max(1, sc["gulp"])
        sc["faults"] = [f for f in sc["faults"] if 0 <= f["call"] <= len(sc["ops"])]
    else:
        sc["n"] = max(1, sc["n"])
        sc["nchans"] = max(1, sc["nchans"])
    return sc


def nontrivial(sc, ctx) -> bool:
    return ctx.probes.get("compared-product", 0) > 0


# ------------------------------------------------------------------ values
def chunk_values(sc, op, t0):
    """(array handed to cwrite, expected file-dtype samples or None when not representable)."""
    d, nch = sc["nbits"], sc["nchans"]
    dt = np.dtype(op["dtype"])
    fdt = np.dtype(filgen.DTYPES[d])
    n = op["n"]
    if op["vals"] == "unrep":
        base = filgen.make_samples(sc["vseed"], n, nch, 16, "bits", t0).astype(np.int64)
        if dt.kind == "f":
            arr = (base.astype(np.float64) * 1e3 + 0.5).astype(dt) if d < 32 else np.full((n, nch), 1e300 if dt == np.float64 else 1.5e38, dtype=dt)
        elif dt == np.uint8:
            arr = (base % 256).astype(dt)  # > 2^d - 1 for d < 8 mostly
        else:
            arr = (base + (1 << min(d, 16))).astype(dt)
        return arr.ravel(), None
    # representable in BOTH the file depth and the in-memory dtype
    if d == 32:
        if dt == np.float32 and dt.isnative:
            exp = filgen.make_samples(sc["vseed"], n, nch, 32, "bits", t0)
        else:
            top = min(60000, DT_TOP.get(dt.name, 60000))
            exp = (filgen.make_samples(sc["vseed"], n, nch, 16, "bits", t0).astype(np.int64) % (top + 1)).astype(np.float32)
        return exp.astype(dt).ravel() if not (dt == np.float32 and dt.isnative) else exp.ravel(), exp
    top = min((1 << d) - 1, DT_TOP.get(dt.name, 1 << 40))
    exp = (filgen.make_samples(sc["vseed"], n, nch, 16, "bits", t0).astype(np.int64) % (top + 1)).astype(fdt)
    return exp.astype(dt).ravel(), exp


def base_header(ctx, nchans):
    from sigpyproc.readers import FilReader

    # the free-text strings travel into every product's header: their length decides the product's header length
    pad = int((getattr(ctx, "sc", None) or {}).get("hdr_pad") or 0)
    spec = {"nbits": 8, "nchans": nchans, "nsamps": [1], "vseed": 1, "mode": "small", "pad": [pad]}
    fs = filgen.write_fileset(ctx.root, spec, stem="base")
    r = FilReader(fs.paths)
    h = r.header
    r._file.close()
    return h


def check_meta(hdr, sc, mk, *, text=False) -> None:
    if abs(hdr.tsamp - sc["tsamp"]) > 1e-12 * abs(sc["tsamp"]):
        raise mk("tsamp-not-preserved", f"{hdr.tsamp!r} != {sc['tsamp']!r}")
    if abs(hdr.tstart - sc["tstart"]) * 86400 > 5e-6:
        raise mk("tstart-not-preserved", f"{hdr.tstart!r} != {sc['tstart']!r}")
    if abs(hdr.dm - sc["dm"]) > 1e-9 * max(1.0, abs(sc["dm"])):
        raise mk("dm-not-preserved", f"{hdr.dm!r} != {sc['dm']!r}")


def stale_file(ctx, path, nbytes) -> None:
    """Pre-existing content at an output path (written by the harness, not through the seam)."""
    ctx.probe("output-path-held-a-longer-file")
    with open(path, "wb") as fp:
        fp.write(bytes((i * 37 + 11) & 0xFF for i in range(nbytes)))


# ------------------------------------------------------------------ execution
def execute(sc, ctx) -> None:
    kind = sc["kind"]
    ctx.probe(f"format:{kind}")
    ctx.sig += [kind, "close" if sc["close"] else "drop", "faulty" if sc["faults"] else "clean"]
    info = {"api": kind, "nbits": sc.get("nbits", 32), "nchans": sc["nchans"], "close": sc["close"]}

    def mk(clause, detail, extra=None):
        return Violation(f"C04/{kind}/{clause}", detail, {**info, **(extra or {})})

    with SimDisk(ctx, sc["faults"]) as sim:
        sim.begin_op(0, budget=4096)
        if kind == "fil":
            exec_fil(sc, ctx, sim, mk)
        else:
            exec_container(sc, ctx, sim, mk)


def exec_fil(sc, ctx, sim, mk) -> None:
    from sigpyproc.readers import FilReader

    d, nch = sc["nbits"], sc["nchans"]
    ctx.probe(f"depth:{d}")
    if sc.get("big"):
        ctx.probe("big-chunks")
    if sc.get("huge"):
        ctx.probe("one-write-of-more-than-2^24-samples")
    ctx.sig.append(f"d{d}")
    fdt = np.dtype(filgen.DTYPES[d])
    hdr = base_header(ctx, nch).new_header({"tsamp": sc["tsamp"], "tstart": sc["tstart"], "dm": sc["dm"], "nchans": nch})
    path = os.path.join(ctx.root, "put.fil")
    sizes = []

    def hook(k, writer, payload, before, after, append_only):
        sizes.append((before, after, append_only))

    sim.write_hook = hook
    if sc.get("pre_depth"):
        ctx.probe("earlier-product-at-other-depth")
        try:
            wp = hdr.prep_outfile(os.path.join(ctx.root, "earlier.fil"), nbits=sc["pre_depth"])
            wp.close()
        except Exception as e:  # noqa: BLE001 - context, not the call under test
            ctx.observations["earlier-product-raised:" + type(e).__name__] += 1
        sizes.clear()
    if sc.get("stale"):
        stale_file(ctx, path, 1024 + sum(o["n"] for o in sc["ops"]) * nch * 4 + sc["stale"])
    try:
        w = hdr.prep_outfile(path, nbits=d)
    except OSError as e:
        if ctx.faults:
            ctx.probe("W3-raised")
            return
        raise mk("prep_outfile-raised", repr(e)) from None
    hdrlen = os.path.getsize(path)
    acked = []  # list of expected arrays (or None = written but values not representable)
    t0 = 0
    stopped = False
    if len(sc["ops"]) > 1:
        ctx.probe("chunks>1")
    for i, op in enumerate(sc["ops"]):
        arr, exp = chunk_values(sc, op, t0)
        t0 += op["n"]
        lay = op.get("layout", "1d")
        if lay == "1d-strided":  # a non-contiguous 1-D view holding the same values
            wide = np.zeros(arr.size * 2, dtype=arr.dtype)
            wide[::2] = arr
            arr = wide[::2]
        elif lay == "2d-C":  # (nsamps, nchans), row-major
            arr = arr.reshape(op["n"], nch)
        elif lay == "2d-F":  # the same logical (nsamps, nchans) array as a transposed view of (nchans, nsamps)
            arr = np.ascontiguousarray(arr.reshape(op["n"], nch).T).T
        if lay != "1d":
            ctx.probe("layout:" + lay)
        if arr.dtype != fdt:
            ctx.probe("dtype!=file-dtype")
        if exp is None:
            ctx.probe("unrepresentable-values")
        before = os.path.getsize(path)
        fired0 = sum(ctx.faults.values())
        raised = None
        try:
            w.cwrite(arr)
        except SimLivelock as e:
            raise mk("livelock", str(e)) from None
        except Exception as e:  # noqa: BLE001
            raised = e
        fault = sum(ctx.faults.values()) > fired0
        grew = os.path.getsize(path) - before
        want = op["n"] * nch * d // 8
        extra = {"op_index": i, "dtype": op["dtype"], "vals": op["vals"], "n": op["n"], "fault": fault}
        ctx.log("cwrite", i, op["dtype"], op["vals"], op["n"], grew, type(raised).__name__ if raised else "ok")
        ctx.sig.append(f"{op['dtype']}->{d}:{op['vals']}:{'raise' if raised else 'ok'}")
        if fault:
            if raised is None:
                raise mk("ENOSPC-swallowed", "cwrite returned normally although the write failed", extra)
            ctx.probe("W3-raised")
            stopped = True
            break
        if raised is not None:
            if grew != 0:
                raise mk("refused-but-file-grew", f"cwrite raised {raised!r} after the file grew by {grew} bytes", extra)
            if exp is not None and np.dtype(op["dtype"]) == fdt and np.dtype(op["dtype"]).isnative and lay == "1d":
                # only an array whose dtype DIFFERS from the file's sample type (or that is not a plain contiguous 1-D array) may be refused
                raise mk("refused-an-array-of-the-file's-own-sample-type", f"cwrite of {op['n']} representable {op['dtype']} samples at {d} bit raised {raised!r}", extra)
            ctx.probe("refused")
            continue
        if grew != want:
            raise mk("written-at-other-width", f"chunk of {op['n']} samples x {nch} chans at {d} bit must add {want} bytes, file grew by {grew} (in-memory dtype {op['dtype']})", extra)
        if arr.dtype != fdt:
            ctx.probe("converted")
        acked.append(exp if exp is not None else ("?", op["n"]))
    if sc["close"]:
        w.close()
    else:
        ctx.probe("reopen-without-close")
    del w
    # ---- restart: reopen by path
    nwritten = sum(a[1] if isinstance(a, tuple) else a.shape[0] for a in acked)
    total_bytes = os.path.getsize(path) - hdrlen
    n_expect = total_bytes * 8 // d // nch
    if not stopped and n_expect != nwritten:
        raise mk("size-conservation", f"{nwritten} samples acknowledged, file holds {n_expect}")
    try:
        r = FilReader(path)
    except Exception as e:  # noqa: BLE001
        raise mk("reopen-failed", repr(e)) from None
    if r.header.nsamples != n_expect:
        raise mk("inferred-nsamples", f"reader infers {r.header.nsamples}, {n_expect} samples on disk ({nwritten} acknowledged)")
    if r.header.nbits != d or r.header.nchans != nch:
        raise mk("declared-depth", f"nbits={r.header.nbits} nchans={r.header.nchans}")
    check_meta(r.header, sc, mk)
    if nwritten >= 1:
        known = np.concatenate([np.ones(a[1] if isinstance(a, tuple) else a.shape[0], dtype=bool) & (not isinstance(a, tuple)) for a in acked])
        model = np.concatenate([np.zeros((a[1], nch), dtype=np.float32) if isinstance(a, tuple) else a.astype(np.float32) for a in acked])
        raw_model = [a for a in acked]
        got = np.asarray(r.read_block(0, nwritten).data)
        if got.shape != (nch, nwritten):
            raise mk("read-back-shape", f"{got.shape} != {(nch, nwritten)}")
        _cmp(got.T[known], model[known], mk, "read_block")
        ctx.probe("compared-product")
        for fa, fb in sc.get("reads", []):
            a = int(fa * nwritten)
            b = a + max(1, int(fb * (nwritten - a)))
            b = min(b, nwritten)
            if b > a:
                g = np.asarray(r.read_block(a, b - a).data).T
                _cmp(g[known[a:b]], model[a:b][known[a:b]], mk, f"read_block({a},{b - a})")
                ctx.probe("sub-range-read-back")
        if (total_bytes * 8) % (d * nch) == 0:
            blocks = [np.array(x).reshape(n, nch) for n, _, x in r.read_plan(gulp=sc["gulp"], quiet=True)]
            allb = np.concatenate(blocks)
            if allb.shape[0] != n_expect:
                raise mk("read_plan-count", f"{allb.shape[0]} != {n_expect}")
            _cmp(allb[:nwritten].astype(np.float32)[known], model[known], mk, "read_plan")
            ctx.probe("read_plan-read-back")
        ctx.log("readback", nwritten, zlib.crc32(np.ascontiguousarray(got).tobytes()))
    r._file.close()


def _cmp(got, want, mk, what) -> None:
    got = np.ascontiguousarray(got, dtype=np.float32)
    want = np.ascontiguousarray(want, dtype=np.float32)
    if got.shape != want.shape or got.tobytes() != want.tobytes():
        bad = np.argwhere(got.view(np.uint32) != want.view(np.uint32)) if got.shape == want.shape else []
        first = tuple(bad[0]) if len(bad) else None
        raise mk("read-back-differs", f"{what}: {len(bad)} of {want.size} values differ, first at {first}: got {got[first] if first else None!r} want {want[first] if first else None!r}")


def exec_container(sc, ctx, sim, mk) -> None:
    from sigpyproc.block import FilterbankBlock
    from sigpyproc.fourierseries import FourierSeries
    from sigpyproc.readers import FilReader
    from sigpyproc.timeseries import TimeSeries

    kind, n, nch = sc["kind"], sc["n"], sc["nchans"]
    base = base_header(ctx, nch)
    upd = {"tsamp": sc["tsamp"], "tstart": sc["tstart"], "dm": sc["dm"], "nsamples": n, "nbits": 32}
    vals = filgen.make_samples(sc["vseed"], n * (2 if kind in ("spec", "fft") else 1), nch, 32, sc["mode"])
    # PRESTO-style names carry the DM, i.e. a dot: "cand_DM12.50"; a DM sweep writes neighbours "cand_DM12.75"
    stem, sibling = "x", None
    if sc.get("dotted"):
        stem, sibling = "cand_DM12.50", ("cand_DM12.75" if not sc["faults"] else None)
        ctx.probe("dotted-basename-with-sibling")
    if sc.get("stale"):
        for nm in ("blk.fil", f"{stem}.tim", f"{stem}.dat", f"{stem}.inf", f"{stem}.spec", f"{stem}.fft"):
            stale_file(ctx, os.path.join(ctx.root, nm), 1024 + n * nch * 8 + sc["stale"])
    raised = None
    fired0 = sum(ctx.faults.values())
    try:
        if kind == "block":
            hdr = base.new_header({**upd, "nchans": nch})
            out = os.path.join(ctx.root, "blk.fil")
            FilterbankBlock(vals.T.copy(), hdr).to_file(out)
        elif kind in ("tim", "dat"):
            hdr = base.new_header({**upd, "nchans": 1, "data_type": "time series"})
            ts = TimeSeries(vals[:, 0].copy(), hdr)
            out = ts.to_tim(os.path.join(ctx.root, f"{stem}.tim")) if kind == "tim" else ts.to_dat(os.path.join(ctx.root, stem))
            if sibling:  # another product of the same kind, written afterwards under a neighbouring name
                ts2 = TimeSeries((vals[: max(1, n // 2), 0] + 1).copy(), hdr.new_header({"nsamples": max(1, n // 2), "dm": sc["dm"] + 0.25}))
                (ts2.to_tim(os.path.join(ctx.root, f"{sibling}.tim")) if kind == "tim" else ts2.to_dat(os.path.join(ctx.root, sibling)))
        else:
            hdr = base.new_header({**upd, "nchans": 1, "data_type": "time series"})
            cdata = vals[:, 0].copy().view(np.complex64)
            fsr = FourierSeries(cdata, hdr)
            out = fsr.to_spec(os.path.join(ctx.root, f"{stem}.spec")) if kind == "spec" else fsr.to_fft(os.path.join(ctx.root, stem))
            if kind == "fft" and sc.get("companion") and not sc["faults"]:
                # the PRESTO layout: the time series the spectrum came from is written next to it under the SAME basename
                # (x.dat + x.fft share x.inf); its length is not the transform length (rfft pads to a good size)
                n_t = max(1, 2 * (n - 1) - int(sc["companion"]))
                ts_c = TimeSeries(np.arange(n_t, dtype=np.float32), hdr.new_header({"nsamples": n_t}))
                ts_c.to_dat(os.path.join(ctx.root, stem))
                ctx.probe("dat-and-fft-share-one-inf")
            if sibling:
                fs2 = FourierSeries((cdata[: max(1, n // 2)] + 1).copy(), hdr.new_header({"dm": sc["dm"] + 0.25}))
                (fs2.to_spec(os.path.join(ctx.root, f"{sibling}.spec")) if kind == "spec" else fs2.to_fft(os.path.join(ctx.root, sibling)))
    except SimLivelock as e:
        raise mk("livelock", str(e)) from None
    except Exception as e:  # noqa: BLE001
        raised = e
    fault = sum(ctx.faults.values()) > fired0
    ctx.log("write", kind, n, type(raised).__name__ if raised else "ok")
    if raised is not None:
        if not fault:
            raise mk("write-raised", repr(raised)[:300])
        ctx.probe("W3-raised")
        return
    if fault:
        raise mk("ENOSPC-swallowed", "writer returned normally although a write failed")
    # ---- restart and read back with the matching reader
    try:
        if kind == "block":
            r = FilReader(out)
            got = np.asarray(r.read_block(0, r.header.nsamples).data).T
            ghdr = r.header
            count = r.header.nsamples
            r._file.close()
            want = vals
        elif kind == "tim":
            t = TimeSeries.from_tim(out)
            got, ghdr, count, want = np.asarray(t.data), t.header, t.header.nsamples, vals[:, 0]
        elif kind == "dat":
            t = TimeSeries.from_dat(out)
            got, ghdr, count, want = np.asarray(t.data), t.header, t.header.nsamples, vals[:, 0]
        elif kind == "spec":
            f = FourierSeries.from_spec(out)
            got, ghdr, count, want = np.asarray(f.data).view(np.float32), f.header, len(f.data), vals[:, 0]
        else:
            f = FourierSeries.from_fft(out)
            got, ghdr, count, want = np.asarray(f.data).view(np.float32), f.header, len(f.data), vals[:, 0]
    except Exception as e:  # noqa: BLE001
        raise mk("read-back-raised", repr(e)[:300]) from None
    n_defined = n if kind not in ("spec", "fft") else n  # complex bins
    if count != n_defined:
        raise mk("inferred-count", f"reader infers {count}, {n_defined} were written")
    _cmp(got.reshape(want.shape) if got.size == want.size else got, want, mk, f"from_{kind}")
    check_meta(ghdr, sc, mk)
    ctx.probe("compared-product")
    ctx.log("readback", kind, zlib.crc32(np.ascontiguousarray(got).tobytes()))
