"""C02 - a multi-file stream reads as the concatenation of its data sections."""
from __future__ import annotations

import zlib

import numpy as np

from sim import filgen
from sim.core import nint, open_reader, SimLivelock, Violation
from sim.disk import SimDisk

ID = "C02"
VARY_KNOBS = True  # module-level tuning constants of the library are lowered in some runs (sim.core.lower_tuning_constants)
VARY_ARGFORM = True  # integer call arguments also arrive as numpy integer scalars
SHRINK_LISTS = ("ops", "faults", ("files", "nsamps"))
SHRINK_MIN = {"nchans": 1, "nbits": 1}
SHRINK_SIMPLE = {"knobs": None, "argform": "int"}
POISON = 0xA5


def warm() -> None:
    import sigpyproc.readers  # noqa: F401
    from sigpyproc.io import bits

    for nb in (1, 2, 4):
        a = np.zeros(8, dtype=np.uint8)
        bits.unpack(a, nb, bitorder="little" if nb == 1 else "big")
        bits.unpack(a, nb, np.zeros(8 * 8 // nb, dtype=np.uint8), bitorder="little" if nb == 1 else "big")


# ------------------------------------------------------------------ generation
def gen_big_files(rng) -> dict:
    """A few percent of runs use blocks of several kB..100 kB: size thresholds (a page, a kernel
    tile, a coalescing buffer) are invisible to 64-sample files."""
    nbits = rng.choice([1, 1, 2, 4, 8, 16, 32])
    nchans = rng.choice([c for c in (64, 96, 128, 416, 1024) if (c * nbits) % 8 == 0])
    nfiles = rng.choice([1, 1, 2, 3])
    total = rng.randint(600, 3000)
    cuts = sorted(rng.sample(range(1, total), nfiles - 1)) if nfiles > 1 else []
    counts = [b - a for a, b in zip([0] + cuts, cuts + [total])]
    if rng.random() < 0.25:
        # an observation cut into files of (almost) equal length - what a recorder with a fixed file size writes: the
        # lengths differ by a sample or two in a hundred thousand (anything that compares lengths approximately, or
        # assumes them equal, is decided here), the last file is short
        nbits, nchans = 1, rng.choice([8, 16])
        n0 = rng.randint(100000, 140000)
        counts = [n0, n0 + rng.choice([1, 1, 2, 0]), rng.randint(1, 3000)]
        if rng.random() < 0.3:
            counts.insert(2, n0 - rng.choice([0, 1]))
            counts = counts[:3]
    return {"nbits": nbits, "nchans": nchans, "nsamps": counts, "pad": filgen.gen_pads(rng, len(counts)),
            "vseed": rng.randrange(1 << 16), "mode": "bits", "big": True}


def gen_files(rng, max_total=64, allow_multi=True) -> dict:
    nbits = rng.choice([1, 2, 4, 8, 8, 16, 32])
    chans = [c for c in (1, 2, 3, 4, 6, 8, 16) if (c * nbits) % 8 == 0]
    nchans = rng.choice(chans)
    nfiles = rng.choice([1, 2, 2, 3, 3]) if allow_multi else 1
    counts = []
    for _ in range(nfiles):
        counts.append(rng.choice([1, 1, 2, 3, rng.randint(1, max(1, max_total // nfiles))]))
    return {
        "nbits": nbits, "nchans": nchans, "nsamps": counts,
        "pad": filgen.gen_pads(rng, len(counts)), "vseed": rng.randrange(1 << 16), "mode": "bits",
    }


def _layout(files):
    stride = files["nchans"] * files["nbits"] // 8
    lens = [n * stride for n in files["nsamps"]]
    bounds = list(np.cumsum(lens))
    return stride, lens, [int(b) for b in bounds], int(sum(lens))


def generate_huge(rng) -> dict:
    """Streams of several GiB (sparse on the simulated disk): offsets beyond 2^31 and 2^32 are where a 32-bit offset,
    a float32 position or an `int` C long gives out - no 64-sample file can show that."""
    nchans = rng.choice([1, 2, 4, 8])
    G = 1 << 30
    sizes = [rng.choice([2 * G - 4096, 2 * G + 4096, 2 * G, G + G // 4, 3 * G // 4, 4 * G + 8, G // 2, 3 * G])
             for _ in range(rng.choice([2, 2, 3]))]
    if sum(sizes[:-1]) < 2 * G:  # some file must START beyond 2 GiB
        sizes[0] = 2 * G + rng.choice([0, 8, 4096])
    nsamps = [max(1, sz // nchans) for sz in sizes]
    lens = [n * nchans for n in nsamps]
    bounds = list(np.cumsum(lens))
    total = int(bounds[-1])
    hot = sorted({0, total} | {int(b) for b in bounds} | {h for h in (1 << 31, 1 << 32, 3 << 31) if h < total})
    windows = [[h - 192, h + 192] for h in hot]
    files = {"nbits": 8, "nchans": nchans, "nsamps": nsamps, "pad": filgen.gen_pads(rng, len(nsamps)), "windows": windows,
             "vseed": rng.randrange(1 << 16)}
    ops = []
    for _ in range(rng.randint(2, 10)):
        k = rng.random()
        h = rng.choice(hot)
        if k < 0.3:
            ops.append({"op": "seek0", "off": h + rng.randint(-160, 160)})
        elif k < 0.4:
            ops.append({"op": "seek1", "off": rng.choice([rng.randint(-150, 150), rng.choice(hot) - rng.choice(hot)])})
        elif k < 0.6:
            ops.append({"op": "cread", "n": rng.randint(0, 160)})
        elif k < 0.8:
            ops.append({"op": "creadinto", "n": rng.randint(0, 160)})
        else:
            ops.append({"op": "read_block", "start": h // nchans + rng.randint(-40, 40), "nsamps": rng.randint(1, max(1, 96 // nchans))})
    return {"kind": "huge", "files": files, "ops": ops, "faults": []}


def execute_huge(sc, ctx) -> None:
    files = sc["files"]
    ss = filgen.SparseSet(ctx.root, files)
    total, stride, N = ss.total, ss.stride, ss.nsamples
    ctx.probe("multi-gigabyte-sparse-stream")
    ctx.sig += ["huge", f"files{len(ss.paths)}"]
    with SimDisk(ctx, [], budget_per_op=8 * (len(ss.paths) + 2) + 16) as sim:
        reader = open_reader("C02", ss.paths, allow_chdir=False)
        fr = reader._file
        if reader.header.nsamples != N:
            raise Violation("C02/open/nsamples", f"{reader.header.nsamples} != {N}")
        sim.begin_op(-1)
        fr.seek(0, 0)
        pos = 0
        for i, op in enumerate(sc["ops"]):
            sim.begin_op(i)
            kind = op["op"]
            info = {"api": kind, **op, "total": total, "pos": pos, "bounds": ss.bounds, "huge": True}
            raised = result = None
            try:
                if kind == "seek0":
                    fr.seek(nint(op["off"]), 0)
                elif kind == "seek1":
                    fr.seek(nint(op["off"]), 1)
                elif kind == "cread":
                    result = fr.cread(nint(op["n"]))
                elif kind == "creadinto":
                    rb = bytearray([POISON]) * op["n"]
                    result = (fr.creadinto(rb, None), rb)
                else:
                    result = reader.read_block(nint(op["start"]), nint(op["nsamps"]))
            except SimLivelock as e:
                raise Violation(f"C02/{kind}/livelock", str(e), info) from None
            except Exception as e:  # noqa: BLE001
                raised = e
            if kind in ("seek0", "seek1"):
                target = op["off"] if kind == "seek0" else pos + op["off"]
                if 0 <= target < total:
                    if raised is not None:
                        raise Violation(f"C02/{kind}/in-range-seek-raised", repr(raised), info)
                    pos = target
                elif raised is None:
                    raised = LookupError("out-of-range seek accepted")
            elif kind == "cread":
                n = op["n"]
                past = pos + n > total
                if raised is None:
                    if past:
                        raise Violation("C02/cread/read-past-end-returned/nofault", f"len={len(result)}", info)
                    if np.asarray(result, dtype=np.uint8).tobytes() != ss.model(pos, n):
                        raise Violation("C02/cread/wrong-data/nofault", f"{n} bytes at stream offset {pos}", info)
                    pos += n
                    if n:
                        ctx.probe("compared-read")
                elif not past:
                    raise Violation("C02/cread/in-range-read-raised", repr(raised), info)
            elif kind == "creadinto":
                n = op["n"]
                if raised is not None:
                    raise Violation("C02/creadinto/raised", repr(raised), info)
                got, rb = result
                exp_n = max(0, min(n, total - pos))
                if got != exp_n:
                    raise Violation("C02/creadinto/byte-count/nofault", f"{got} != {exp_n}", info)
                if bytes(rb[:got]) != ss.model(pos, got):
                    raise Violation("C02/creadinto/wrong-bytes/nofault", f"{got} bytes at stream offset {pos}", info)
                if any(x != POISON for x in rb[got:]):
                    raise Violation("C02/creadinto/tail-clobbered/nofault", "", info)
                pos += got
                if got:
                    ctx.probe("compared-read")
            else:
                st, ns = op["start"], op["nsamps"]
                if not (st >= 0 and st + ns <= N):
                    if not isinstance(raised, ValueError):
                        raise Violation("C02/read_block/out-of-range-not-ValueError", repr(raised), info)
                elif raised is not None:
                    raise Violation("C02/read_block/in-range-raised", repr(raised), info)
                else:
                    exp = np.frombuffer(ss.model(st * stride, ns * stride), dtype=np.uint8).reshape(ns, stride).T.astype(np.float32)
                    data = np.asarray(result.data)
                    if data.shape != exp.shape or not np.array_equal(data.astype(np.float32), exp):
                        raise Violation("C02/read_block/wrong-data/nofault", f"samples [{st},{st + ns}) of a {N}-sample stream", info)
                    pos = (st + ns) * stride
                    ctx.probe("compared-read")
            ctx.log("op", i, kind, "ok" if raised is None else type(raised).__name__, pos)
            if pos >= (1 << 31):
                ctx.probe("position-beyond-2^31")
            if pos >= (1 << 32):
                ctx.probe("position-beyond-2^32")
            if raised is None:
                rp = fr.cur_data_pos_stream
                if rp != pos:
                    raise Violation(f"C02/{kind}/position/nofault", f"reader {rp} != model {pos}", info)
            else:
                sim.begin_op(i)
                target = pos if pos < total else 0
                try:
                    fr.seek(target, 0)
                except Exception as e:  # noqa: BLE001
                    raise Violation(f"C02/resync/seek-raised-after-{kind}", repr(e), info) from None
                pos = target
                if fr.cur_data_pos_stream != pos:
                    raise Violation(f"C02/resync/position-after-{kind}", f"{fr.cur_data_pos_stream} != {pos}", info)
        reader._file.close()


def generate(rng, tier) -> dict:
    if rng.random() < 0.03:
        return generate_huge(rng)
    files = gen_big_files(rng) if rng.random() < (0.03 if tier == "quick" else 0.1) else gen_files(rng, max_total=64 if tier == "quick" else 192)
    stride, lens, bounds, total = _layout(files)
    item = {16: 2, 32: 4}.get(files["nbits"], 1)
    bitfact = 8 // files["nbits"] if files["nbits"] < 8 else 1
    N = sum(files["nsamps"])
    hot = sorted({0, 1, total - 1, total, total + 1, -1} | {b + d for b in bounds for d in (-2, -1, 0, 1, 2)})

    def off():
        o = rng.choice(hot) if rng.random() < 0.6 else rng.randint(-2, total + 2)
        return (o // item) * item

    def length():
        r = rng.random()
        if r < 0.35:
            n = abs(rng.choice(hot) - rng.choice(hot))
        elif r < 0.5:
            n = rng.choice([0, 1, item, total, total + item])
        else:
            n = rng.randint(0, total + 2)
        return (n // item) * item

    if len(files["nsamps"]) > 1 and rng.random() < 0.3:
        # "any list of SIGPROC files opened as one stream": not contiguous, not even in time order
        files["tstart_shift"] = [round(rng.uniform(-3, 3), 6) for _ in files["nsamps"]]
    nops = rng.randint(1, 14 if tier == "quick" else 40)
    ops = []
    for _ in range(nops):
        k = rng.random()
        if k < 0.2:
            ops.append({"op": "seek0", "off": off()})
        elif k < 0.38:
            ops.append({"op": "seek1", "off": (rng.randint(-total, total) // item) * item if rng.random() < 0.5 else off() - rng.choice(hot) // item * item})
        elif k < 0.6:
            ops.append({"op": "cread", "n": (length() // item) * bitfact})
        elif k < 0.85:
            ops.append({"op": "creadinto", "n": length()})
        else:
            st = rng.choice([0, N - 1, N, rng.randint(-1, N + 1)] + [int(b // stride) + d for b in bounds for d in (-1, 0)])
            ns = rng.choice([1, 1, 2, N, rng.randint(1, N + 2), max(1, N - st), max(1, N - st + 1)])
            ops.append({"op": "read_block", "start": st, "nsamps": ns})
    faults = []
    if rng.random() < 0.4:
        readops = [i for i, o in enumerate(ops) if o["op"] in ("cread", "creadinto", "read_block")]
        for _ in range(rng.choice([1, 1, 2, 3])):
            if not readops:
                break
            faults.append({"kind": rng.choice(["R1", "R1", "R1", "R2", "R3"]), "op": rng.choice(readops),
                           "call": rng.choice([0, 0, 1, 1, 2, 3]), "arg": rng.choice([1, 1, 2, 3, rng.randint(1, max(1, total))])})
    return {"files": files, "ops": ops, "faults": faults}


def fixup(sc):
    f = sc["files"]
    if sc.get("kind") == "huge":
        if not sc["ops"] or not f["nsamps"]:
            return None
        f["nsamps"] = [max(1, int(n)) for n in f["nsamps"]][:3]
        f["pad"] = (list(f.get("pad") or []) + [0, 0, 0])[: len(f["nsamps"])]
        f["windows"] = [[int(a), min(int(b), int(a) + 1024)] for a, b in f.get("windows", []) if int(b) > int(a)][:16]
        for o in sc["ops"]:
            if "n" in o:
                o["n"] = max(0, min(int(o["n"]), 4096))
            if "nsamps" in o:
                o["nsamps"] = max(1, min(int(o["nsamps"]), 4096))
        sc["faults"] = []
        return sc
    if f["nbits"] not in (1, 2, 4, 8, 16, 32) or f["nchans"] < 1 or (f["nchans"] * f["nbits"]) % 8:
        return None
    f["nsamps"] = [n for n in f["nsamps"] if n >= 1][:3]
    if not f["nsamps"]:
        return None
    f["pad"] = (list(f.get("pad") or []) + [0, 0, 0])[: len(f["nsamps"])]
    if f.get("tstart_shift"):
        f["tstart_shift"] = (list(f["tstart_shift"]) + [0.0, 0.0, 0.0])[: len(f["nsamps"])]
        if len(f["nsamps"]) < 2:
            del f["tstart_shift"]
    item = {16: 2, 32: 4}.get(f["nbits"], 1)
    bitfact = 8 // f["nbits"] if f["nbits"] < 8 else 1
    for o in sc["ops"]:
        if "off" in o:
            o["off"] = (o["off"] // item) * item
        if o["op"] == "cread":
            o["n"] = (max(0, o["n"]) // bitfact) * bitfact
        if o["op"] == "creadinto":
            o["n"] = (max(0, o["n"]) // item) * item
        if o["op"] == "read_block":
            o["nsamps"] = max(1, o["nsamps"])
    sc["faults"] = [x for x in sc["faults"] if 0 <= x.get("op", -1) < len(sc["ops"])]
    return sc


def after_list_removal(sc, key, i, chunk):
    """Keep fault addresses pointing at the same ops when ops are deleted."""
    if key != "ops":
        return
    keep = []
    for f in sc["faults"]:
        if f["op"] < i:
            keep.append(f)
        elif f["op"] >= i + chunk:
            f = dict(f)
            f["op"] -= chunk
            keep.append(f)
    sc["faults"] = keep


def nontrivial(sc, ctx) -> bool:
    return ctx.probes.get("compared-read", 0) > 0


# ------------------------------------------------------------------ execution
def _crc(b) -> int:
    return zlib.crc32(bytes(b)) & 0xFFFFFFFF


def execute(sc, ctx) -> None:
    from sigpyproc.readers import FilReader

    if sc.get("kind") == "huge":
        return execute_huge(sc, ctx)
    files = sc["files"]
    fs = filgen.write_fileset(ctx.root, files)
    stride, lens, bounds, total = _layout(files)
    nbits, nchans = files["nbits"], files["nchans"]
    item = {16: 2, 32: 4}.get(nbits, 1)
    bitfact = 8 // nbits if nbits < 8 else 1
    N = fs.nsamples
    model = fs.databytes
    assert len(model) == total
    faulty = bool(sc["faults"])
    ctx.sig += [f"nbits{nbits}", f"files{len(lens)}", "faulty" if faulty else "clean"]
    if len(lens) > 1:
        ctx.probe("multi-file")
    if nbits < 8:
        ctx.probe("sub-byte")
    if files.get("big"):
        ctx.probe("big-blocks")
    inner = [b for b in bounds[:-1]]

    with SimDisk(ctx, sc["faults"], budget_per_op=8 * (len(lens) + 2) + 16) as sim:
        if files.get("tstart_shift"):
            ctx.probe("non-contiguous-list")
            reader = open_reader("C02", fs.paths, check_contiguity=False)
        else:
            reader = open_reader("C02", fs.paths)
        fr = reader._file
        if reader.header.nsamples != N:
            raise Violation("C02/open/nsamples", f"{reader.header.nsamples} != {N}")
        pos = 0  # model position (bytes in the joined data stream)
        # A freshly opened FileReader sits at byte 0 of file 0 (in front of the header); every
        # public entry point seeks before it reads, and so does every history here.
        sim.begin_op(-1)
        fr.seek(0, 0)
        if fr.cur_data_pos_stream != 0:
            raise Violation("C02/open/position-after-seek0", f"{fr.cur_data_pos_stream}")
        held = []  # (returned array, bytes it must keep holding): results the caller still holds

        for i, op in enumerate(sc["ops"]):
            for arr_h, want_h, i0 in held[-6:]:
                if np.ascontiguousarray(arr_h).tobytes() != want_h:
                    raise Violation("C02/held-result-changed-by-a-later-operation", f"the array returned by op {i0} changed before op {i}",
                                    {"api": sc["ops"][i0]["op"], **sc["ops"][i0]})
            if held:
                ctx.probe("held-results-rechecked")
            sim.begin_op(i)
            kind = op["op"]
            fired_before = sum(ctx.faults.values())
            raised = None
            result = None
            try:
                if kind == "seek0":
                    fr.seek(nint(op["off"]), 0)
                elif kind == "seek1":
                    fr.seek(nint(op["off"]), 1)
                elif kind == "cread":
                    result = fr.cread(nint(op["n"]))
                elif kind == "creadinto":
                    rb = bytearray([POISON]) * op["n"]
                    ub = bytearray([POISON]) * (op["n"] * bitfact) if nbits < 8 else None
                    result = (fr.creadinto(rb, ub), rb, ub)
                elif kind == "read_block":
                    result = reader.read_block(nint(op["start"]), nint(op["nsamps"]))
                else:
                    raise AssertionError(kind)
            except SimLivelock as e:
                raise Violation(f"C02/{kind}/livelock", str(e), {"api": kind, **op}) from None
            except Exception as e:  # noqa: BLE001 - classified below
                raised = e
            fault_fired = sum(ctx.faults.values()) > fired_before
            if fault_fired and sim.calls["r"] > 1 and any(
                f.get("_done") and f["op"] == i and f["call"] >= 1 for f in sim.faults
            ):
                ctx.probe("fault-between-reads-of-one-op")
            info = {"api": kind, **op, "nbits": nbits, "nfiles": len(lens), "total": total, "pos": pos,
                    "fault": fault_fired, "bounds": bounds}
            tag = "fault" if fault_fired else "nofault"

            # ---- expected behaviour from the byte model
            if kind in ("seek0", "seek1"):
                target = op["off"] if kind == "seek0" else pos + op["off"]
                in_range = 0 <= target < total
                if in_range:
                    if raised is not None:
                        raise Violation(f"C02/{kind}/in-range-seek-raised", repr(raised), info)
                    if kind == "seek1" and target < pos and any(target < b <= pos for b in inner):
                        ctx.probe("relseek-back-across-boundary")
                    pos = target
                else:
                    # the statement quantifies over IN-RANGE seeks; what an out-of-range seek does (the
                    # library raises ValueError, another reader might clamp or allow the end position) is
                    # not asserted - only that the reader can be re-synchronised afterwards
                    if raised is None:
                        raised = LookupError("out-of-range seek accepted")  # forces the re-synchronisation below
                        ctx.observations["out-of-range-seek-accepted"] += 1
                    else:
                        ctx.probe("out-of-range-seek-raises")
                ctx.log("op", i, kind, op["off"], "ok" if raised is None else type(raised).__name__)
            elif kind == "cread":
                nbytes = (op["n"] // bitfact) * item
                past = pos + nbytes > total
                if raised is not None:
                    if not past and not fault_fired:
                        raise Violation("C02/cread/in-range-read-raised", repr(raised), info)
                    if past:
                        ctx.probe("counted-read-past-end-raises")
                    ctx.log("op", i, kind, op["n"], type(raised).__name__)
                else:
                    if past:
                        raise Violation(f"C02/cread/read-past-end-returned/{tag}", f"len={len(result)}", info)
                    exp = filgen.unpack_model(model[pos : pos + nbytes], nbits)
                    if not filgen.same_bits(np.asarray(result), exp):
                        raise Violation(f"C02/cread/wrong-data/{tag}", _diff(result, exp), info)
                    _span_probes(ctx, pos, nbytes, inner, bounds)
                    if op["n"] == 0:
                        ctx.probe("cread0")
                    if nbytes:
                        ctx.probe("compared-read")
                        held.append((result, np.ascontiguousarray(result).tobytes(), i))
                    pos += nbytes
                    ctx.log("op", i, kind, op["n"], _crc(np.asarray(result).tobytes()))
            elif kind == "creadinto":
                n = op["n"]
                if raised is not None:
                    if not fault_fired:
                        raise Violation("C02/creadinto/raised", repr(raised), info)
                    ctx.log("op", i, kind, n, type(raised).__name__)
                else:
                    got, rb, ub = result
                    exp_n = max(0, min(n, total - pos))
                    if got != exp_n:
                        raise Violation(f"C02/creadinto/byte-count/{tag}", f"{got} != {exp_n}", info)
                    if bytes(rb[:got]) != model[pos : pos + got]:
                        raise Violation(f"C02/creadinto/wrong-bytes/{tag}",
                                        _diff(np.frombuffer(bytes(rb[:got]), np.uint8), np.frombuffer(model[pos:pos + got], np.uint8)), info)
                    if any(x != POISON for x in rb[got:]):
                        raise Violation(f"C02/creadinto/tail-clobbered/{tag}", "", info)
                    if ub is not None:
                        exp = filgen.unpack_model(model[pos : pos + got], nbits)
                        if bytes(ub[: got * bitfact]) != exp.tobytes():
                            raise Violation(f"C02/creadinto/wrong-unpacked/{tag}", "", info)
                    if got < n:
                        ctx.probe("eos-short-buffer-read")
                    _span_probes(ctx, pos, got, inner, bounds)
                    if got:
                        ctx.probe("compared-read")
                    pos += got
                    ctx.log("op", i, kind, n, got, _crc(rb[:got]))
            elif kind == "read_block":
                st, ns = op["start"], op["nsamps"]
                in_range = st >= 0 and st + ns <= N
                if not in_range:
                    if not isinstance(raised, ValueError):
                        raise Violation("C02/read_block/out-of-range-not-ValueError", repr(raised), info)
                    ctx.probe("out-of-range-read_block-raises")
                    ctx.log("op", i, kind, st, ns, "ValueError")
                elif raised is not None:
                    if not fault_fired:
                        raise Violation("C02/read_block/in-range-raised", repr(raised), info)
                    ctx.log("op", i, kind, st, ns, type(raised).__name__)
                else:
                    data = np.asarray(result.data)
                    exp = fs.samples[st : st + ns].T.astype(np.float32)
                    if data.shape != exp.shape:
                        raise Violation(f"C02/read_block/shape/{tag}", f"{data.shape} != {exp.shape}", info)
                    if not filgen.same_bits(data.astype(np.float32), exp):
                        raise Violation(f"C02/read_block/wrong-data/{tag}", _diff(data, exp), info)
                    _span_probes(ctx, st * stride, ns * stride, inner, bounds)
                    ctx.probe("compared-read")
                    held.append((result.data, np.ascontiguousarray(result.data).tobytes(), i))
                    pos = (st + ns) * stride
                    ctx.log("op", i, kind, st, ns, _crc(np.ascontiguousarray(data).tobytes()))
            ctx.sig.append(f"{kind}:{'raise' if raised is not None else 'ok'}:{tag}")

            # ---- position invariant / re-synchronisation
            if raised is None:
                rp = fr.cur_data_pos_stream
                if rp != pos:
                    raise Violation(f"C02/{kind}/position/{tag}", f"reader {rp} != model {pos}", info)
            else:
                # after any raise only the weaker clause is asserted: an absolute seek
                # re-synchronises reader and model (bounded liveness: within the op budget)
                sim.begin_op(i)  # faults of this op stay consumed (_done)
                target = pos if pos < total else 0
                try:
                    fr.seek(target, 0)
                except Exception as e:  # noqa: BLE001
                    raise Violation(f"C02/resync/seek-raised-after-{kind}", repr(e), info) from None
                pos = target
                if fr.cur_data_pos_stream != pos:
                    raise Violation(f"C02/resync/position-after-{kind}", f"{fr.cur_data_pos_stream} != {pos}", info)
                ctx.probe("resync-after-raise")
        reader._file.close()


def _span_probes(ctx, pos, n, inner, bounds) -> None:
    if n <= 0:
        return
    end = pos + n
    crossed = sum(1 for b in inner if pos < b < end)
    if crossed >= 2:
        ctx.probe("read-spans-two-boundaries")
    if crossed >= 1:
        ctx.probe("read-spans-boundary")
    if end in bounds:
        ctx.probe("read-ends-at-boundary")


def _diff(a, b) -> str:
    a = np.asarray(a).ravel()
    b = np.asarray(b).ravel()
    if a.shape != b.shape:
        return f"shape {a.shape} vs {b.shape}"
    idx = np.nonzero(a.view(np.uint8).reshape(len(a), -1).any(1) != b.view(np.uint8).reshape(len(b), -1).any(1))[0] if False else None
    bad = [i for i in range(len(a)) if a[i : i + 1].tobytes() != b[i : i + 1].tobytes()]
    return f"{len(bad)} of {len(a)} differ, first at {bad[:1]}: got {a[bad[0]] if bad else None} want {b[bad[0]] if bad else None}"
