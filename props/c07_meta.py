"""C07 static metadata."""
LEVEL = "exploration"
QUICK_RUNS = 9600
THOROUGH_BUDGET_S = 600
RULE = (
    "seeded scenarios: one of the 8 streaming transforms (invert_freq, apply_channel_mask, extract_samps, "
    "extract_chans, extract_bands, downsample, subband, remove_zerodm) run under 1-2 different gulps on ONE FilReader object (30% of runs first make 1-2 unrelated calls - compute_stats, collapse, bandpass, read_block on other ranges - on that reader: the output must not depend on the object's history) "
    "over 1-2 harness-written files (depth 1,2,4,8,32), with generated (start,nsamps), masks, channel lists, band "
    "layouts, factors, DM/nsub, batch sizes (only configurations whose output sample is a whole number of bytes); "
    "every output file is parsed with the harness' own header parser/unpacker and compared with the whole-array "
    "definition; fault runs add R1/R2 on input reads and W3 (ENOSPC) on output writes. Non-trivial = a transform "
    "returned normally and at least one output file was compared; distinct = distinct event-log digests among those."
)
PROBES = [
    "decimation:gulp!=nchans", "decimation:gulp-rounded-up", "decimation:remainder-block<tfactor", "decimation:exact-integer-means", "multi-batch-extract",
    "extract_chans:8bit-to-32bit-tim", "sub-range-before-EOF", ">=3-blocks", "two-gulps-compared", "subband:maxdelay>0",
    "subband:gulp-raised-to-2maxdelay", "multi-file", "sub-byte", "W3-raised", "R-fault-raised", "zerodm:in-range", "pre-history-call", "second-window-on-same-reader", "big-blocks", "default-gulp", "earlier-products-rechecked", "earlier-session", "reentrant-call-inside-allocator",
] + [f"ok:{n}" for n in ["invert_freq", "apply_channel_mask", "extract_samps", "extract_chans", "extract_bands", "downsample", "subband", "remove_zerodm"]]
COMPONENTS = {
    "real": ["sigpyproc.base.Filterbank streaming transforms", "sigpyproc.readers.FilReader.read_plan", "numba kernels (compiled, 1 thread)",
             "sigpyproc.header.Header.prep_outfile / FileWriter.cwrite", "numpy tofile/fromfile on tmpfs"],
    "simulated": ["io.FileIO -> SimFileIO (input read events/faults)", "FileWriter.write/cwrite wrapped (write events, ENOSPC)",
                  "input files (harness encoder)", "output files parsed by the harness' own parser"],
    "stubbed": [],
}
ASSUMPTIONS = [
    "per-channel delays are those the library reports for the DM (C09 owns the dispersion law)",
    "decimation at integer depths accepts either rounding direction: |v - mean| < 1",
    "zero-DM removal: band-pass of the whole file or of the selected range both accepted; only scenarios whose definition stays within the representable range are compared",
    "extract_bands may write more bands than nchans/chanpersub (it runs to the top of the band): every written band must equal its definition",
    "fault configuration: the call raises, or its outputs are complete and exact",
]

# dimensions added in seeded rounds 6 and 7
PROBES = list(PROBES) + ["output-names-held-longer-files:junk", "output-names-held-longer-files:rerun", "integer-arguments-as-numpy-scalars"]

# dimensions added in seeded round 10
RULE = RULE + " Round 10: W4 - one raw data write transfers at most 1-1000 bytes in 5/8 of the runs (never fires on the pinned tree)."


# every child process of this property (workers, the determinism worker, replays, warm-up) may use up to 4 numba threads;
# a scenario runs on 1 unless it says otherwise ("numba_threads", see sim.core._set_numba_threads)
CHILD_ENV = {"NUMBA_NUM_THREADS": "4"}

# dimensions added in seeded round 11
RULE = RULE + " Round 11: 0.15% of runs (0.5% thorough) decimate 8.6e6 x 4 8-bit samples with values 250-255 by tfactor ~4.3e6, ffactor 4 (each output value averages ~1.7e7 inputs; bin sums beyond 2^32); C07 children may use up to 4 numba threads, every scenario runs on 1 unless it says otherwise."
