#!/bin/sh
# run every selftest/mutants/<PROP>-*.patch against its property's quick check (reduced runs)
cd "$(dirname "$0")/.." || exit 2
for p in selftest/mutants/${1:-C}*.patch; do
  prop=$(basename "$p" | cut -c1-3)
  runs=1600; [ "$prop" = "C20" ] && runs=96; [ "$prop" = "C18" ] && runs=480
  tools/sens.sh "$p" "$prop" $runs 2>&1 | grep -E "^SENS|^  class" | cut -c1-260 | awk 'NR<=3 || /^SENS/'
done
