#!/bin/sh
# lane.sh "<sid> <PROP>" ... : confirm, store, then first verdict from the baseline snapshot
for pair in "$@"; do
  set -- $pair
  cd /verif && SKIP_SENS=1 tools/seeded.sh "$1" "$2" /tmp/r10/$2 > /tmp/r10/seeded-$2.log 2>&1
  d=/verif/seeded/$1
  /tmp/verif-r10base/tools/sens.sh $d/patch.diff $2 2>&1 | grep -E "^SENS|^  class|HARNESS" | cut -c1-300 | awk 'NR<=4 || /^SENS/' > $d/check_result_first.txt
done
