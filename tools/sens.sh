#!/bin/sh
# tools/sens.sh <patch> <PROP> [runs]  - sensitivity: apply a breakage to a scratch copy of /repo,
# point the quick check at it (VERIF_REPO), expect exit 1, delete the copy.  Dev tooling only.
patch="$(realpath "$1")"; prop="$2"; runs="${3:-0}"
tmp="$(mktemp -d /dev/shm/verif-mut-XXXXXX)"
trap 'rm -rf "$tmp"' EXIT
cp -r /repo/sigpyproc "$tmp/sigpyproc"; cp -r /repo/sigpyproc.egg-info "$tmp/" 2>/dev/null
find "$tmp" -name __pycache__ -prune -exec rm -rf {} +
( cd "$tmp" && patch -p1 -s < "$patch" ) || { echo "SENS patch failed: $patch"; exit 3; }
cd "$(dirname "$0")/.." || exit 3
if [ "$runs" = "0" ]; then
  VERIF_REPO="$tmp" ./check "$prop" --tier quick --no-evidence > "$tmp/out.txt" 2>&1
else
  VERIF_REPO="$tmp" ./check "$prop" --tier quick --no-evidence --runs "$runs" > "$tmp/out.txt" 2>&1
fi
rc=$?
grep -E "^VIOLATION|HARNESS-ERROR|^  class" "$tmp/out.txt" | head -6
tail -1 "$tmp/out.txt"
echo "SENS $(basename "$patch") $prop rc=$rc $( [ $rc = 1 ] && echo CAUGHT || echo MISSED )"
exit 0
