#!/usr/bin/env python3
"""Regenerates MANIFEST.json from the table below (run by hand after adding a check)."""
import json
import os

HERE = os.path.dirname(os.path.dirname(os.path.abspath(__file__)))

NA_PURE = {
    "C03": "bit packing is a pure function of a byte array over a finite domain: no state, stream, schedule or fault for a simulator to own; complete enumeration is the deciding tool, not simulation (the default-order kernels do run inside C01/C02/C04 scenarios, which does not decide C03's quantifier)",
    "C05": "header encode/parse/edit are pure functions of header fields; the in-place edit is one non-concurrent write through Path.open, outside every I/O seam, with no fault in the statement's scope",
    "C08": "a relation between call arguments and the returned header, quantified over channelisations: pure in its inputs, nothing for a scheduler or fault injector to decide",
    "C09": "a numerical identity between pure functions of (band, DM, data); no schedule, clock, fault or history in it",
    "C12": "pure numerical functions of arrays and lengths (FFT identities)",
    "C13": "pure numerical function of data and template bank",
    "C14": "pure numerical functions (running filters, decimators, detrending)",
    "C15": "pure numerical relations between evaluations of estimators",
}

CHECKS = {
    "C01": dict(
        level="exploration", ref="DESIGN.md §4 C01",
        technique="deterministic simulation: seeded read_plan histories on a simulated disk with read faults, consumer/allocator schedules; array reference model; ddmin replay",
        text="Seeded search over (depth, split, gulp, start, nsamps, skipback) plan histories with simulated consumers, allocators and read faults (short read, EIO, None, truncation underneath); every yielded block is compared with an array model of the stream. Sampling, not enumeration: a clean batch is evidence, not proof.",
        note="Trusted: the harness' own SIGPROC encoder/bit packer and the array model; header parsing runs real and fault-free; files <= 256 samples, <= 3 files, <= 16 channels, plus a few per cent of 3000x1024-sample sets and of multi-gigabyte sparse sets (short plans around 2^31 / 2^32 bytes); plans may outlive their reader or be handed from thread to thread (each call joined); an earlier same-size recording may have lived at the same paths; library tuning constants lowered in a quarter of the runs.",
    ),
    "C02": dict(
        level="exploration", ref="DESIGN.md §4 C02",
        technique="deterministic simulation: seeded seek/read histories vs a byte-array + position model, with injected short reads/EIO; ddmin replay",
        text="Seeded histories of absolute/relative seeks, counted reads, buffer reads and read_block on 1-3 file streams, arguments biased to every file boundary; after every operation returned bytes and reported position are compared with a plain byte-array model; fault runs assert exact-or-raises and re-synchronisation by an absolute seek.",
        note="Trusted: harness file encoder and byte model. Offsets aligned to the item size at 16/32 bit. Streams <= 192 samples, plus 3 % multi-gigabyte sparse streams (2-3 files of 0.5-4 GiB, data in windows around boundaries, 2^31, 2^32; functional byte model).",
    ),
    "C04": dict(
        level="exploration", ref="DESIGN.md §4 C04",
        technique="deterministic simulation: seeded put/get histories (write chunking, dtype x depth, close-or-drop, restart = reopen by path, ENOSPC) vs a put/get array model with file-size conservation after every write; ddmin replay",
        text="Seeded write histories through prep_outfile/cwrite at all six depths with in-memory dtypes independent of the depth, and through to_file/to_tim/to_dat/to_spec/to_fft; after every write the file must grow by exactly the declared width (or the call raised and it did not grow); after dropping all objects the product is re-opened with the matching reader and compared bit-for-bit, with inferred count and tsamp/tstart/dm.",
        note="Trusted: harness value generator and model. to_fft/to_dat/make_inf write by path (real, fault-free, outside the seam). ENOSPC ends a history. Library tuning constants (ALL-CAPS ints >= 4096, also as default arguments) are lowered to a few hundred in a quarter of the runs so that size-threshold paths execute.",
    ),
    "C06": dict(
        level="exploration", ref="DESIGN.md §4 C06",
        technique="deterministic simulation: seeded streaming-reduction runs under two chunkings on a simulated disk with read faults vs in-memory reference definitions; ddmin replay",
        text="Each streaming reduction (collapse, bandpass, read_chan, dedisperse, compute_stats, compute_stats_basic) is run under two seeded gulps on generated sub-ranges, depths, splits and DMs; results are compared with the definition on the selected samples (bit-exact where arithmetic is exact) and with each other. Fault runs (short read, EIO) assert raises-or-exact.",
        note="Trusted: harness encoder and numpy definitions; delays from the library (C09). Integer-valued samples so float32 sums are exact. Files <= 200 samples, <= 16 channels, kernels on 1 thread. In 12% of the scenarios another task (another beam, own reader) runs the same reduction at a scheduling point right after one of the call's reads.",
    ),
    "C07": dict(
        level="exploration", ref="DESIGN.md §4 C07",
        technique="deterministic simulation: seeded streaming-transform runs on a simulated disk (chunking, sub-range, batch knobs; read faults, ENOSPC) vs whole-array reference definitions; ddmin replay",
        text="Each of the 8 streaming file-to-file transforms is run under seeded gulps, sub-ranges, depths, file splits and arguments; every output file is parsed by the harness' own parser and compared with the whole-array definition (bit-exact, |v-mean|<1, one quantisation level), plus declared depth/nchans and inferred sample count. Fault runs (short read, EIO, ENOSPC) assert raises-or-exact.",
        note="Trusted: harness encoder/parser and numpy definitions; dispersion delays are taken from the library (C09 owns them). Files <= 160 samples, <= 16 channels, kernels on 1 thread.",
    ),
    "C10": dict(
        level="exploration", ref="DESIGN.md §4 C10",
        technique="deterministic simulation of stream delivery: seeded chunk partitions, two-accumulator splits and merge orders of ChannelStats vs a two-pass float64 reference model; ddmin replay (no I/O fault applies)",
        text="Seeded histories push one stream into ChannelStats whole, in a generated partition, and split between two accumulators merged in either order; count/min/max must be identical and exact, mean/var/skew/kurtosis within calibrated tolerances of the two-pass float64 values, constant channels exactly zero variance/skew, nothing non-finite.",
        note="Tolerances are ~20x the worst error observed on the unchanged tree over 8e4 calibration scenarios (recorded in evidence assumptions). n <= 400 (2000 thorough), <= 6 channels, plus rare streams up to 2^24 samples; merge trees over 3-8 accumulators in any bracketing, optionally with a never-pushed one. Kernels compiled, 1 thread.",
    ),
    "C11": dict(
        level="exploration", ref="DESIGN.md §4 C11",
        technique="deterministic simulation: seeded streaming folds under two chunkings on a simulated disk with read faults, kernel hit counts observed through a harness spy, vs a per-sample cell reference model; ddmin replay",
        text="Seeded fold geometries (period/tsamp, accel, nbins, nints, nbands incl. non-dividing), DMs and two gulps per scenario on Filterbank.fold, plus TimeSeries.fold; every cell's hit count and mean is compared with a per-sample model of (sub-integration, sub-band, phase bin), totals with (nsamps-maxdelay)*nchans, the two gulps bitwise with each other, and a synthetic periodic train must occupy one bin. Kernel calls are domain-guarded so a mis-addressed block is reported, not executed.",
        note="Margin rule: scenarios whose phase is within 1e-4 bin of an edge (or whose integer indices hinge on float rounding) are rejected, so evaluation order cannot decide a verdict. Full-range folds only. Delays from the library (C09). 0.3 % of runs fold 1.2-1.7e7 samples (TimeSeries.fold, exact 0/1 data, period 0-3 float32 ulps from a whole number of samples); there, samples within the margin only widen the admissible interval of two cells.",
    ),
    "C16": dict(
        level="exploration", ref="DESIGN.md §4 C16",
        technique="deterministic simulation: seeded call histories on the RFIMask state machine vs a set model, and clean_rfi runs under two chunkings on a simulated disk with read/write faults vs an array model of the cleaned file; ddmin replay",
        text="Mask histories (apply_mask/apply_method/apply_funcn in any order and multiplicity) are checked after every call against Python-set models (closed-interval membership of channel centres, thresholded z-scores with IQRM lag structure, custom functions): chan_mask is exactly the union of everything flagged and never shrinks; the HDF5 round trip reproduces all arrays/threshold/header scalars. clean_rfi outputs are parsed independently: masked channels equal the mask value in every block, everything else bit-identical, for two gulps; faults assert raises-or-exact.",
        note="z-scores come from the library's estimate_zscore (estimators belong to C15); margin rule keeps decisions away from the threshold and from channel centres. h5py runs real and fault-free.",
    ),
    "C17": dict(
        level="exploration", ref="DESIGN.md §4 C17",
        technique="deterministic simulation of call histories: seeded update_dm/update_period sequences checked after every call against a one-step reference (fresh cube, single update) and rotation/idempotence/restore invariants; ddmin replay (no fault applies)",
        text="Seeded histories of up to 12 (30 thorough) re-tuning calls over an alphabet of targets incl. repeat-last and return-to-fold; after each call: reported values, rotation-only (all-distinct cube), idempotence of a repeated call, equality with a fresh cube updated once (single-parameter histories), bit-exact restore on return to the folding values.",
        note="The one-step reference is the library's own single update on a fresh cube; rotation amounts themselves belong to C09. Mixed DM+period histories skip the fresh-cube clause.",
    ),
    "C18": dict(
        level="exploration", ref="DESIGN.md §4 C18",
        technique="deterministic simulation of read histories (fault-free): seeded PSRFITS layouts and read_block/read_plan/reduction histories vs the whole-file read, a calibration model and a twin SIGPROC file; ddmin replay",
        text="The harness writes search-mode PSRFITS files (NSBLK, rows, depth, polarisation layout, channel order, scales/offsets/weights drawn per run), performs a whole-file read and then a seeded history of aligned/unaligned/boundary-crossing read_block calls, read_plan iterations and reductions; every read must equal the same columns of the whole-file read bitwise, the whole-file read the calibration model, read_plan C01's exactly-once oracle, reductions the twin SIGPROC file, and header numbers must be plain and describe the data as read.",
        note="Fault-free only: astropy reads through mmap, which no seam can fault without SIGBUS. Layouts the reader cannot read in full (npol 1/2) are excluded as the statement says and counted in the evidence.",
    ),
    "C19": dict(
        level="exploration", ref="DESIGN.md §3.5, §4 C19",
        technique="deterministic simulation of the thread schedule: prange bodies of each kernel's own source run on virtual threads (baton-passing real threads, sys.monitoring INSTRUCTION pre-emption, seeded schedule) with an access-set race oracle and a single-thread reference; cross-checked on the compiled kernels under real thread counts",
        text="For each of the 11 prange kernels, seeded schedules (1-4 virtual threads, static or chunked work split, bytecode-granular baton passes) execute the kernel's Python source; a run fails on any element written by two threads or written by one and read by another inside a parallel region, on a floating-point array reduction fed by more than one thread (per-thread partial sums), on any difference from the same source on one thread, or from a numpy definition. A second mode runs the compiled kernels under set_num_threads(1..16) x chunk sizes x repeats on both threading layers and demands bit-identical results.",
        note="The simulated schedule decides on the kernels' Python source, not on numba's lowering; the compiled cross-check runs real code but its schedule is not controlled (its replay re-runs the cell up to 200 times). <= 4 virtual threads, shapes <= 8x12 in simulation, up to 64x4096 compiled.",
    ),
    "C20": dict(
        level="fault_enumeration", ref="DESIGN.md §4 C20",
        technique="deterministic simulation with enumerated crash points: golden run snapshots after every write, then one re-execution per write index (crash, torn write, ENOSPC) and per sampled read, plus every truncation length, survivors re-opened with FilReader",
        text="Scenarios (writer, arguments, gulp, sub-range) are seeded; within a scenario every point between two consecutive writes is enumerated (crash after write k for all k; torn/ENOSPC at byte offsets of write k; crash at sampled input reads; descriptor exhaustion - a real EMFILE after m more opens, m enumerated) and every byte-length truncation of every final output at or after the header is re-opened with the library's reader. Snapshot invariants: first write = exactly one complete header, append-only, complete at return.",
        note="Assumes process death, not power loss (the library never syncs). Torn/ENOSPC writes are emulated by truncating right after the real write, guarded by an append-only check on every call. to_dat/to_fft (PRESTO, header-less) are outside; a torn header write is outside the statement.",
    ),
}


def main():
    props = [json.loads(l) for l in open(os.path.join(HERE, "properties.jsonl"))]
    checks, na = [], []
    for p in props:
        pid = p["id"]
        if pid in CHECKS:
            c = CHECKS[pid]
            checks.append({
                "property_id": pid,
                "quick_cmd": f"./check {pid} --tier quick",
                "thorough_cmd": f"./check {pid} --tier thorough",
                "evidence_file": f"/verif/evidence/{pid}.json",
                "replay_cmd_template": f"./check {pid} --replay {{path}}",
                "engine": "sim",
                "level_claimed": {"category": c["level"], "text": c["text"], "design_ref": c["ref"]},
                "level_note": c["note"],
                "technique": c["technique"],
            })
        elif pid in NA_PURE:
            na.append({"property_id": pid, "reason": "not applicable to deterministic simulation with fault injection: " + NA_PURE[pid]})
        else:
            na.append({"property_id": pid, "reason": "claimed in DESIGN.md but its check is not built yet (work in progress); not claimed until the check exists"})
    man = {
        "version": 1,
        "setup_cmd": "./setup.sh",
        "hooks": {
            "guard": "SIGPYPROC_VERIF",
            "enable": "none needed: the seams are installed from the harness (name shims on sigpyproc.io.fileio.{io,np}, wrapped FileWriter.write/cwrite, read_plan(allocator=)); checks import /repo's working tree via PYTHONPATH",
            "baseline_off_cmd": "cd /repo && env -u SIGPYPROC_VERIF /venv/bin/python -m pytest -ra -q -p no:cacheprovider --timeout=900 --continue-on-collection-errors",
            "source_commits": [],
            "add_only": True,
        },
        "engines": [{
            "name": "sim", "path": "/verif/sim",
            "serves_properties": sorted(CHECKS),
            "kind_free_text": "deterministic simulator: seeded scenario generator, simulated disk / consumer / allocator / thread scheduler, reference models, ddmin shrinker, JSON replay files",
        }],
        "checks": checks,
        "not_applicable": na,
        "notes": "Every check: exit 0 = held (KNOWN-FINDING lines possible), 1 = VIOLATION with replay, 2 = HARNESS-ERROR (never a verdict). VERIF_SEED selects the seed; VERIF_JOBS the worker count; VERIF_BUDGET_S the thorough wall budget; VERIF_REPO the tree under test (default /repo).",
    }
    with open(os.path.join(HERE, "MANIFEST.json"), "w") as fp:
        json.dump(man, fp, indent=1)
    print("checks:", [c["property_id"] for c in checks], "n/a:", [n["property_id"] for n in na])


if __name__ == "__main__":
    main()
