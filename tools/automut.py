#!/usr/bin/env python3
"""tools/automut.py - mechanical mutation survey of the code the claimed properties are anchored in.

  automut.py gen  OUT.json            enumerate single-token mutants of the scoped functions
  automut.py run  IN.json RESULTS.jsonl [--slots N] [--jobs J] [--only PREFIX] [--pass2]
  automut.py sum  RESULTS.jsonl

Dev tooling only (sensitivity measurement): every mutant lives in a scratch copy of /repo under
/dev/shm which is deleted as soon as its checks have run; /repo itself is never touched.
"""
from __future__ import annotations

import ast
import json
import os
import shutil
import subprocess
import sys
import time
from concurrent.futures import ThreadPoolExecutor

VERIF = os.path.dirname(os.path.dirname(os.path.abspath(__file__)))
REPO = "/repo"

# (file, {class-or-None: [functions] | "*"}) -> checks to try, most likely first
SCOPE = [
    ("sigpyproc/io/fileio.py", {"": ["allocate_buffer"], "FileBase": "*", "FileReader": "*"}, ["C01", "C02", "C06", "C07"]),
    ("sigpyproc/io/fileio.py", {"FileWriter": "*"}, ["C04", "C07", "C20"]),
    ("sigpyproc/readers.py", {"FilReader": ["__init__", "read_block", "read_plan", "chan_stride", "samp_stride"]}, ["C01", "C02", "C06"]),
    ("sigpyproc/readers.py", {"PFITSReader": ["__init__", "read_block", "read_plan"]}, ["C18"]),
    ("sigpyproc/base.py", {"Filterbank": ["compute_stats", "compute_stats_basic", "collapse", "bandpass", "dedisperse", "read_chan"]}, ["C06"]),
    ("sigpyproc/base.py", {"Filterbank": ["invert_freq", "apply_channel_mask", "downsample", "extract_samps", "extract_chans", "extract_bands", "remove_zerodm", "subband"]}, ["C07", "C20"]),
    ("sigpyproc/base.py", {"Filterbank": ["fold"]}, ["C11"]),
    ("sigpyproc/base.py", {"Filterbank": ["clean_rfi"]}, ["C16"]),
    ("sigpyproc/core/kernels.py", {"": ["unpack1_8_big", "unpack2_8_big", "unpack4_8_big", "pack1_8_big", "pack2_8_big", "pack4_8_big"]}, ["C01", "C04"]),
    ("sigpyproc/core/kernels.py", {"": ["downsample_2d_mean_flat", "invert_freq", "subband", "remove_zerodm", "mask_channels"]}, ["C07", "C19", "C16"]),
    ("sigpyproc/core/kernels.py", {"": ["extract_tim", "extract_bpass", "dedisperse"]}, ["C06", "C19"]),
    ("sigpyproc/core/kernels.py", {"": ["fold"]}, ["C11", "C19"]),
    ("sigpyproc/core/kernels.py", {"": ["update_moments", "update_moments_basic", "compute_online_moments", "compute_online_moments_basic", "add_online_moments"]}, ["C10", "C19", "C06"]),
    ("sigpyproc/core/stats.py", {"ChannelStats": "*"}, ["C10", "C06"]),
    ("sigpyproc/foldedcube.py", {"FoldedData": ["__init__", "dm", "period", "update_dm", "update_period", "_get_dmdelays", "_get_pdelays"]}, ["C17"]),
    ("sigpyproc/io/pfits.py", {"SubintHdr": "*", "PFITSFile": ["__init__", "read_subints", "read_subint_pol", "read_subint", "read_weights", "read_scales", "read_offsets"]}, ["C18"]),
    ("sigpyproc/core/rfi.py", {"": ["double_mad_mask", "iqrm_mask"], "RFIMask": ["_set_chan_mask", "_set_user_mask", "_set_stats_mask", "_set_custom_mask", "apply_mask", "apply_method", "apply_funcn"]}, ["C16"]),
    ("sigpyproc/io/bits.py", {"": ["unpack", "pack"], "BitsInfo": ["dtype", "itemsize", "unpack", "bitfact", "bitorder"]}, ["C01", "C04"]),
    ("sigpyproc/block.py", {"FilterbankBlock": ["to_file"]}, ["C04"]),
    ("sigpyproc/timeseries.py", {"TimeSeries": ["to_dat", "to_tim", "from_dat", "from_tim"]}, ["C04"]),
    ("sigpyproc/fourierseries.py", {"FourierSeries": ["to_spec", "to_file", "from_spec", "from_file"]}, ["C04"]),
    ("sigpyproc/io/sigproc.py", {"StreamInfo": "*", "": ["parse_header_multi", "parse_header", "encode_header", "encode_key", "_read_string"]}, ["C02", "C04", "C01"]),
    ("sigpyproc/header.py", {"Header": ["prep_outfile", "new_header", "to_sigproc", "from_sigproc"]}, ["C04", "C07"]),
    ("sigpyproc/header.py", {"Header": ["from_pfits"]}, ["C18"]),
]

RUNS1 = {"C01": 300, "C02": 300, "C04": 300, "C06": 240, "C07": 300, "C10": 400, "C11": 160, "C16": 240,
         "C17": 300, "C18": 200, "C19": 240, "C20": 32}

CMP = {ast.Lt: ("<", "<="), ast.LtE: ("<=", "<"), ast.Gt: (">", ">="), ast.GtE: (">=", ">"), ast.Eq: ("==", "!="), ast.NotEq: ("!=", "==")}
BIN = {ast.Add: ("+", "-"), ast.Sub: ("-", "+"), ast.Mult: ("*", "+"), ast.FloorDiv: ("//", "*"), ast.Mod: ("%", "//")}
SKIP_CALLS = ("logger", "logging", "warnings", "print", "rich", "plt", "ax", "fig")


class Gen:
    def __init__(self, rel):
        self.rel = rel
        self.src = open(os.path.join(REPO, rel)).read()
        assert self.src.isascii() or True
        self.lines = self.src.splitlines(True)
        self.starts = [0]
        for ln in self.lines:
            self.starts.append(self.starts[-1] + len(ln.encode()))
        self.bsrc = self.src.encode()
        self.out = []

    def off(self, lineno, col):
        return self.starts[lineno - 1] + col

    def add(self, node, a, b, new, kind, fn):
        old = self.bsrc[a:b].decode()
        self.out.append({"file": self.rel, "func": fn, "line": node.lineno, "kind": kind, "a": a, "b": b, "old": old, "new": new})

    def between(self, left, right, sym, new, kind, fn, node):
        a = self.off(left.end_lineno, left.end_col_offset)
        b = self.off(right.lineno, right.col_offset)
        span = self.bsrc[a:b].decode()
        k = span.find(sym)
        if k < 0:
            return
        self.add(node, a + k, a + k + len(sym), new, kind, fn)

    def visit_fn(self, f, fn):
        skip = set()
        for d in f.decorator_list:
            skip.update(id(n) for n in ast.walk(d))
        for a in ast.walk(f.args):
            skip.add(id(a))
        if f.returns is not None:
            skip.update(id(n) for n in ast.walk(f.returns))
        body = f.body
        if body and isinstance(body[0], ast.Expr) and isinstance(getattr(body[0], "value", None), ast.Constant) and isinstance(body[0].value.value, str):
            skip.update(id(n) for n in ast.walk(body[0]))
        for n in ast.walk(f):
            if isinstance(n, ast.AnnAssign) and n.annotation is not None:
                skip.update(id(x) for x in ast.walk(n.annotation))
            if isinstance(n, ast.Raise):
                skip.update(id(x) for x in ast.walk(n))
            if isinstance(n, ast.Call):
                root = n.func
                while isinstance(root, (ast.Attribute, ast.Call, ast.Subscript)):
                    root = root.value if not isinstance(root, ast.Call) else root.func
                if isinstance(root, ast.Name) and root.id in SKIP_CALLS:
                    skip.update(id(x) for x in ast.walk(n))
            if isinstance(n, (ast.FunctionDef, ast.AsyncFunctionDef)) and n is not f:
                pass
        for n in ast.walk(f):
            if id(n) in skip:
                continue
            if isinstance(n, ast.Compare):
                left = n.left
                for op, comp in zip(n.ops, n.comparators):
                    if type(op) in CMP:
                        s, t = CMP[type(op)]
                        self.between(left, comp, s, t, "cmp", fn, n)
                    left = comp
            elif isinstance(n, ast.BinOp) and type(n.op) in BIN:
                if isinstance(n.op, ast.Mod) and isinstance(n.left, ast.Constant) and isinstance(n.left.value, str):
                    continue
                s, t = BIN[type(n.op)]
                self.between(n.left, n.right, s, t, "bin", fn, n)
            elif isinstance(n, ast.BoolOp):
                s, t = ("and", "or") if isinstance(n.op, ast.And) else ("or", "and")
                for l, r in zip(n.values, n.values[1:]):
                    self.between(l, r, s, t, "bool", fn, n)
            elif isinstance(n, ast.UnaryOp) and isinstance(n.op, ast.Not):
                a = self.off(n.lineno, n.col_offset)
                if self.bsrc[a:a + 4] == b"not ":
                    self.add(n, a, a + 4, "", "not", fn)
            elif isinstance(n, ast.Constant) and type(n.value) is int and 0 <= n.value <= 64:
                a, b = self.off(n.lineno, n.col_offset), self.off(n.end_lineno, n.end_col_offset)
                self.add(n, a, b, str(n.value + 1), "const+1", fn)
                if n.value == 1:
                    self.add(n, a, b, "0", "const-1", fn)
            elif isinstance(n, ast.AugAssign) and isinstance(n.op, (ast.Add, ast.Sub)):
                s, t = ("+=", "-=") if isinstance(n.op, ast.Add) else ("-=", "+=")
                self.between(n.target, n.value, s, t, "aug", fn, n)
            elif isinstance(n, ast.If):
                a, b = self.off(n.test.lineno, n.test.col_offset), self.off(n.test.end_lineno, n.test.end_col_offset)
                self.add(n, a, b, "not (" + self.bsrc[a:b].decode() + ")", "ifneg", fn)
            elif isinstance(n, ast.Expr) and isinstance(n.value, ast.Call):
                a, b = self.off(n.lineno, n.col_offset), self.off(n.end_lineno, n.end_col_offset)
                self.add(n, a, b, "pass", "delcall", fn)

    def run(self, sel):
        tree = ast.parse(self.src)
        for node in tree.body:
            if isinstance(node, ast.FunctionDef) and "" in sel and (sel[""] == "*" or node.name in sel[""]):
                self.visit_fn(node, node.name)
            if isinstance(node, ast.ClassDef) and node.name in sel:
                want = sel[node.name]
                for m in node.body:
                    if isinstance(m, ast.FunctionDef) and (want == "*" or m.name in want) and m.name not in ("plot", "__repr__", "__str__"):
                        self.visit_fn(m, f"{node.name}.{m.name}")
        return self.out


def gen(outp):
    muts = []
    for rel, sel, checks in SCOPE:
        if not os.path.exists(os.path.join(REPO, rel)):
            continue
        for m in Gen(rel).run(sel):
            m["checks"] = checks
            muts.append(m)
    seen, uniq = set(), []
    for m in muts:
        k = (m["file"], m["a"], m["b"], m["new"])
        if k in seen:
            continue
        seen.add(k)
        uniq.append(m)
    for i, m in enumerate(uniq):
        m["id"] = f"m{i:04d}"
    json.dump(uniq, open(outp, "w"), indent=0)
    from collections import Counter

    print(len(uniq), "mutants", dict(Counter(m["kind"] for m in uniq)))
    print(dict(Counter(m["file"] for m in uniq)))


def one(m, slot, jobs, pass2):
    slot = os.environ.get("AM_PREFIX", "") + str(slot)
    root = f"/dev/shm/verif-am-{slot}"
    shutil.rmtree(root, ignore_errors=True)
    os.makedirs(root)
    subprocess.run(["cp", "-a", os.path.join(REPO, "sigpyproc"), root + "/sigpyproc"], check=True)
    subprocess.run(["cp", "-a", os.path.join(REPO, "sigpyproc.egg-info"), root + "/"], check=False)
    subprocess.run(f"find {root} -name __pycache__ -prune -exec rm -rf {{}} +", shell=True)
    p = os.path.join(root, m["file"])
    b = open(p, "rb").read()
    assert b[m["a"]:m["b"]].decode() == m["old"], m
    nb = b[:m["a"]] + m["new"].encode() + b[m["b"]:]
    try:
        compile(nb, p, "exec")
    except SyntaxError as e:
        return {"id": m["id"], "verdict": "invalid", "why": str(e)}
    open(p, "wb").write(nb)
    res = {"id": m["id"], "file": m["file"], "func": m["func"], "line": m["line"], "kind": m["kind"], "old": m["old"][:80], "new": m["new"][:80], "checks": {}}
    env = dict(os.environ, VERIF_REPO=root, VERIF_NUMBA_CACHE=f"{VERIF}/.cache/am-{slot}", VERIF_DET_N="4", VERIF_SHRINK_EXECS="6")
    verdict = "survived"
    for c in m["checks"]:
        cmd = ["timeout", "900", "./check", c, "--tier", "quick", "--no-evidence", "--jobs", str(jobs)]
        if not pass2:
            cmd += ["--runs", str(RUNS1[c])]
        t0 = time.time()
        r = subprocess.run(cmd, cwd=VERIF, env=env, capture_output=True, text=True)
        cls = [ln.strip() for ln in r.stdout.splitlines() if ln.startswith("  class")][:2]
        res["checks"][c] = {"rc": r.returncode, "s": round(time.time() - t0, 1), "cls": cls,
                            "tail": r.stdout[-600:] if r.returncode not in (0, 1) else ""}
        if r.returncode == 1:
            verdict = "caught"
            res["by"] = c
            break
        if r.returncode != 0:
            verdict = "error"
            res["by"] = c
            break
    res["verdict"] = verdict
    shutil.rmtree(root, ignore_errors=True)
    return res


def run(inp, outp, slots, jobs, only, pass2, ids):
    muts = json.load(open(inp))
    done = set()
    if os.path.exists(outp):
        for ln in open(outp):
            done.add(json.loads(ln)["id"])
    todo = [m for m in muts if m["id"] not in done and (not only or m["file"].startswith(only)) and (not ids or m["id"] in ids)]
    import random

    random.Random(1).shuffle(todo)
    print(len(todo), "to run")
    import queue

    free = queue.Queue()
    for s in range(slots):
        free.put(s)

    def task(m):
        s = free.get()
        try:
            r = one(m, s, jobs, pass2)
        except Exception as e:  # noqa: BLE001
            r = {"id": m["id"], "verdict": "tool-error", "why": repr(e)}
        finally:
            free.put(s)
        with open(outp, "a") as fp:
            fp.write(json.dumps(r) + "\n")
        print(r["id"], r["verdict"], r.get("by", ""), r.get("file", ""), r.get("func", ""), r.get("line", ""), repr(r.get("old", ""))[:40], "->", repr(r.get("new", ""))[:40], flush=True)

    with ThreadPoolExecutor(slots) as ex:
        list(ex.map(task, todo))
    for s in range(slots):
        shutil.rmtree(f"{VERIF}/.cache/am-{s}", ignore_errors=True)


def summ(p):
    from collections import Counter

    rs = {}
    for ln in open(p):
        r = json.loads(ln)
        rs[r["id"]] = r
    c = Counter(r["verdict"] for r in rs.values())
    print(dict(c))
    for r in rs.values():
        if r["verdict"] not in ("caught", "invalid"):
            print(r["id"], r["verdict"], r.get("file"), r.get("func"), r.get("line"), r.get("kind"), repr(r.get("old")), "->", repr(r.get("new")), {k: v["rc"] for k, v in r.get("checks", {}).items()})


if __name__ == "__main__":
    cmd = sys.argv[1]
    if cmd == "gen":
        gen(sys.argv[2])
    elif cmd == "run":
        a = sys.argv[2:]
        opt = lambda k, d: (a[a.index(k) + 1] if k in a else d)  # noqa: E731
        ids = set(opt("--ids", "").split(",")) - {""}
        run(a[0], a[1], int(opt("--slots", "6")), int(opt("--jobs", "2")), opt("--only", ""), "--pass2" in a, ids)
    elif cmd == "sum":
        summ(sys.argv[2])
