#!/bin/sh
# tools/seeded.sh <seed-id> <PROP> <worktree>  - confirm a seeded change (demo fails with / passes without,
# existing suite still passes), store it under seeded/<seed-id>/, then run the property's quick check against it.
sid="$1"; prop="$2"; wt="$3"; runs="${4:-0}"
cd "$wt" || exit 3
export PYTHONPATH="$wt" NUMBA_CACHE_DIR="$wt/.numba_cache"
git diff -- sigpyproc > /tmp/seed-$sid.diff
[ -s /tmp/seed-$sid.diff ] || { echo "SEED $sid: no change in worktree"; exit 3; }
timeout 900 /venv/bin/python demo.py > /tmp/seed-$sid.with.txt 2>&1; rc_with=$?
git apply -R /tmp/seed-$sid.diff || exit 3
timeout 900 /venv/bin/python demo.py > /tmp/seed-$sid.without.txt 2>&1; rc_without=$?
git apply /tmp/seed-$sid.diff || exit 3
suite=$(timeout 3000 /venv/bin/python -m pytest -q -p no:cacheprovider --timeout=900 -n 6 2>&1 | tail -1)
echo "SEED $sid demo_with=$rc_with demo_without=$rc_without suite: $suite"
d=/verif/seeded/$sid; mkdir -p "$d"
cp /tmp/seed-$sid.diff "$d/patch.diff"; cp demo.py "$d/demo.py"; cp NOTES.md "$d/NOTES.md" 2>/dev/null
printf '{"demo_exit_with_change": %s, "demo_exit_without_change": %s, "suite_with_change": "%s"}\n' "$rc_with" "$rc_without" "$suite" > "$d/confirm.json"
[ -n "$SKIP_SENS" ] && exit 0
cd /verif && tools/sens.sh "$d/patch.diff" "$prop" "$runs" 2>&1 | grep -E "^SENS|^  class|HARNESS" | cut -c1-300 | awk 'NR<=4 || /^SENS/' | tee "$d/check_result.txt"
