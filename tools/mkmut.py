#!/usr/bin/env python3
"""tools/mkmut.py <name> <file-relative-to-repo> <<< 'OLD\n=====\nNEW'  -> selftest/mutants/<name>.patch"""
import difflib
import os
import sys

name, rel = sys.argv[1], sys.argv[2]
old, new = sys.stdin.read().split("\n=====\n")
src = open(os.path.join("/repo", rel)).read()
assert src.count(old) == 1, f"OLD occurs {src.count(old)} times"
dst = src.replace(old, new.rstrip("\n") if not old.endswith("\n") else new)
diff = difflib.unified_diff(src.splitlines(True), dst.splitlines(True), "a/" + rel, "b/" + rel)
out = os.path.join(os.path.dirname(os.path.dirname(os.path.abspath(__file__))), "selftest", "mutants", name + ".patch")
open(out, "w").writelines(diff)
print("wrote", out)
