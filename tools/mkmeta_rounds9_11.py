import json, os, re, glob
T = {
 # sid-prefix: (round, needs, history-text)
 "s97": (9, "the plan outlives the FilReader it came from (reader dropped, or a shallow copy of it dropped): a new __del__ closes the stream under the live generator", "Strengthened: 12% of plans are made on a reader nothing else refers to / after a dropped shallow copy (orphan:*)."),
 "s98": (9, "a file of a multi-file set starting at a stream offset >= 2^31 (int32 table of data starts)", "Strengthened: multi-gigabyte SPARSE streams with a functional byte model in C02 (3%) and C01 (2%). Found F21 on the pinned tree."),
 "s99": (9, "one cwrite of more than 2^24 samples at 1/2/4 bit, array_split pieces not whole bytes (threshold constant bound as default argument)", "Strengthened: library tuning constants lowered (also default-argument bindings); rare real writes of > 2^24 samples."),
 "s100": (9, "multi-file set, relative names, chdir, a call that re-opens a part", "Caught as the checks stood (round-5 decoy directory)."),
 "s101": (9, "one block > 128 MiB: read_plan silently caps the gulp, downsample's tfactor alignment is lost", "Strengthened: tuning constants lowered."),
 "s102": (9, "a sum of sums (s0+s1)+(s2+s3): the merge result loses its order flag, m3/m4 dropped", "Strengthened: merge trees over 3-8 accumulators in any bracketing. Found F20 on the pinned tree."),
 "s103": (9, "period one float32 ulp from a whole number of samples, >= 1e7 samples", "Strengthened: folds of 1.2-1.7e7 samples at k*tsamp +- 0..3 ulps with exact 0/1 data and ambiguity-bounded cells."),
 "s104": (9, "two RFIMask objects sharing chan_mask (attrs.evolve / copy.copy / constructor) + in-place OR", "Strengthened: a second mask object derived in mid-history, each with its own model."),
 "s105": (9, "drift beyond 2^24 bins (harmonic of a millisecond period over an hour) then another update", "Caught as the checks stood through a side effect (read-only cube); strengthened with harmonic re-tuning: history-dependent/single, return-to-fold-does-not-restore."),
 "s106": (9, "a PSRFITS row decoding to > 64 MiB at sub-byte depth, slice length rounded down", "Strengthened: tuning constants lowered."),
 "s107": (9, "dedisperse with a numba array reduction over 64-channel stripes; > 64 channels, 2^24 dynamic range in one sample", "First verdict exit 2 (outliner gave the array a scalar identity). Strengthened: array reductions modelled and reported; per-allocation array names."),
 "s108": (9, "real EMFILE inside a batch of extract_chans/extract_bands", "Strengthened: fault kind E1 (RLIMIT_NOFILE lowered around the call, m enumerated)."),
 "s109": (10, "update_period on a cube of >= 2M samples (block-wise gather re-using the first block's index; inline 1<<20)", "Caught as the checks stood through a side effect (read-only cube refused/accepted pattern); strengthened with rare cubes of 2-2.4M samples judged by the absolute drift model."),
 "s110": (10, "a write >= 64 MiB followed by a smaller one on the same output (os.pwrite fast path does not move the offset; threshold as lower-case class attribute)", "Strengthened: tuning constants also as class attributes / any-case names >= 65536."),
 "s111": (10, "a path parsed once, rewritten by another recording of exactly the same byte size but other header length, re-opened in the same process (lru_cache on path+size)", "Strengthened: in a fifth of the small file sets the paths first hold another recording of the same size with a 4-byte longer header, opened, read and dropped."),
 "s112": (10, "frequency ranges passed as a one-shot iterable (zip, generator, map): drained by a new validation pass", "Strengthened: ranges handed over as list / tuple / (n,2) array / zip / generator / map."),
 "s113": (10, "one plan whose next() calls come from different threads, strictly sequentially (per-thread FileReader)", "Strengthened: K5 consumer - each next() in a new thread, first here rest in one worker, plan made in a worker and consumed here (each call joined: no concurrency)."),
 "s114": (10, "header length 529-537 or 1041-1049 bytes: HEADER_END straddles a 512-byte chunk of a chunked parser", "Strengthened: free-text header strings of 0-700 characters in 12% of input sets and 40% of C04 products (any header length up to ~1050)."),
 "s115": (10, "PSRFITS primary cards IBEAM / CHAN_DM holding '*', a quoted number or nothing (copied raw into Header)", "Strengthened: optional primary cards with placeholder values; every Header field annotated int/float must be a plain number."),
 "s116": (10, "more than 2^24 samples per channel with an odd total (count kept in float32)", ""),
 "s117": (10, "a single block write beyond Linux's 0x7ffff000-byte cap at itemsize > 1 (partial-write loop advances a memoryview by bytes)", "Caught as the checks stood: ENOSPC is delivered to raw writes as a short count (round 5). Also added: W4 - a cap on the bytes one raw data write transfers."),
 "s118": (10, "more than 2^24 (sample, channel) values in one cell (hit counter kept in float32)", "Strengthened: long filterbank folds (32-64 channels, > 2^24 values per cell, sparse 0/1 data so that sums stay exact)."),
 "s119": (10, "mask_channels handed a buffer longer than nchans*nsamps, fewer flagged channels than threads (branch on get_num_threads)", "Strengthened: buffers with 1-37 spectra of live data beyond nsamps, single-flagged-channel masks."),
 "s120": (10, "two FilReaders with equal buffer sizes reduced from two threads; switch between one's read and its kernel call (process-wide buffer pool)", "Strengthened: a scheduling point in the read seam - right after read k of a call, another task (another beam, same shape) runs the same reduction to completion."),
 "s121": (11, "an all-zero written block of >= st_blksize bytes (skipped with a seek) at the end of a product whose writer is never closed", "Strengthened: blank128 data in several-kB scenarios."),
 "s122": (11, ">= 3 files, a non-last file longer than the first by <= 1e-5 of its length, a seek into its last bytes", "Caught as the checks stood (sparse multi-gigabyte sets); near-equal file lengths and boundary starts added."),
 "s123": (11, ".dat and .fft sharing one .inf, spectrum longer than the series", "Caught as the checks stood (fft/inferred-count); a .dat companion under the same basename added."),
 "s124": (11, "8-bit decimation with more than 2^32 summed per bin (uint32 scratch)", "Strengthened: rare decimation of 8.6e6 x 4 samples at the top of the range with tfactor ~4.3e6."),
 "s125": (11, "band-pass of one block >= 8 Mi samples with a gulp that is no multiple of the tile", "Strengthened: rare blocks of ten million samples x channels with odd gulps."),
 "s126": (11, "block >= 2^22, channel count not divisible by the numba thread count, masked trailing channel", "Strengthened: scenarios may run on 3-4 numba threads; rare large cleaning scenarios with 1009-1031 channels."),
}
for d in sorted(glob.glob("/verif/seeded/s*")):
    sid = os.path.basename(d)
    key = sid.split("-")[0]
    if key not in T:
        continue
    rnd, needs, hist = T[key]
    prop = sid.split("-")[1]
    conf = json.load(open(d + "/confirm.json")) if os.path.exists(d + "/confirm.json") else {}
    def verdict(fn):
        if not os.path.exists(d + "/" + fn):
            return None, []
        txt = open(d + "/" + fn).read()
        m = re.search(r"rc=(\d) (\w+)", txt)
        cl = sorted(set(re.findall(r"class=(\S+)", txt)))
        return (m.group(0) if m else None), cl
    first, fcl = verdict("check_result_first.txt")
    final, cl = verdict("check_result.txt")
    meta = {
        "id": sid, "round": rnd, "breaks_property": prop,
        "origin": "independent sub-agent given only the property text, a scratch worktree and what the earlier seeds for this property needed (nothing from /verif)",
        "needs_to_manifest": needs,
        "confirmed_by_me": {"demo_exit_with_change": conf.get("demo_exit_with_change"), "demo_exit_without_change": conf.get("demo_exit_without_change"),
                            "existing_suite_with_change": conf.get("suite_with_change"), "how": "tools/seeded.sh in the scratch worktree (the 2 failures are the two root-permission tests that always fail in this sandbox)"},
        "check_run": {"command": f"tools/sens.sh seeded/{sid}/patch.diff {prop}", "first_verdict_as_the_checks_stood": first, "first_classes": fcl,
                      "caught": bool(final and "CAUGHT" in final), "final_verdict": final, "violation_classes": cl, "history": hist},
    }
    json.dump(meta, open(d + "/meta.json", "w"), indent=1)
    print(sid, first, "->", final)
