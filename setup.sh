#!/bin/sh
# Offline setup: nothing to install (numpy/numba/astropy/h5py are in /venv; the harness is pure
# Python).  Warm the numba cache for the tree under test and run a small self-test.
cd "$(dirname "$0")" || exit 2
PY="${VERIF_PYTHON:-/venv/bin/python}"
"$PY" -c "import numpy, numba, astropy, h5py" || { echo "setup: missing python deps"; exit 2; }
"$PY" -m sim.selftest || exit 2
echo "setup ok"
